#!/bin/sh
# Warm the Go build cache for the harness packages (offline). Never fails the
# setup for a build problem: every check rebuilds what it needs itself.
cd "$(dirname "$0")/harness" || exit 0
export GOFLAGS=-mod=mod GOPROXY=off GOSUMDB=off GOTOOLCHAIN=local
go build -tags verif ./engine ./gen 2>&1 | tail -5
for p in props e3 life; do go test -c -vet=off -tags verif -o /dev/null ./$p 2>&1 | tail -5; done
go test -c -vet=off -race -tags verif -o /dev/null ./life 2>&1 | tail -5
T=$(mktemp -d) && go run ./gen -repo /repo -out "$T" -harness "$PWD" -what kq,win,ztest >/dev/null 2>&1 && \
  for p in kq winprop ztestprop; do go test -c -vet=off -tags verif -overlay "$T/overlay.json" -o /dev/null ./$p 2>&1 | tail -5; done
rm -rf "$T"
exit 0
