#!/bin/sh
# Warm the Go build cache for the harness packages (offline).
set -e
cd "$(dirname "$0")/harness"
export GOFLAGS=-mod=mod GOPROXY=off GOSUMDB=off GOTOOLCHAIN=local
go build -tags verif ./engine
go test -c -tags verif -o /dev/null ./props
exit 0
