// Command mutgen enumerates single-point syntactic mutants of Go source files
// (used only to measure how sensitive the checks are; see DESIGN.md §6).
//
//	mutgen -list file.go            prints one line per mutant: index, position, description
//	mutgen -apply N file.go > out   prints the file with mutant N applied
package main

import (
	"bytes"
	"flag"
	"fmt"
	"go/ast"
	"go/parser"
	"go/printer"
	"go/token"
	"os"
)

type mutant struct {
	pos   token.Pos
	desc  string
	apply func()
	undo  func()
}

var swaps = map[token.Token][]token.Token{
	token.EQL:  {token.NEQ},
	token.NEQ:  {token.EQL},
	token.LSS:  {token.LEQ, token.GEQ},
	token.LEQ:  {token.LSS, token.GTR},
	token.GTR:  {token.GEQ, token.LEQ},
	token.GEQ:  {token.GTR, token.LSS},
	token.LAND: {token.LOR},
	token.LOR:  {token.LAND},
	token.ADD:  {token.SUB},
	token.SUB:  {token.ADD},
	token.AND:  {token.OR},
	token.OR:   {token.AND},
}

func collect(f *ast.File, fset *token.FileSet) []mutant {
	var ms []mutant
	ast.Inspect(f, func(n ast.Node) bool {
		switch x := n.(type) {
		case *ast.FuncDecl:
			// skip debug helpers
			if x.Name.Name == "state" {
				return false
			}
		case *ast.BinaryExpr:
			for _, t := range swaps[x.Op] {
				x, old, t := x, x.Op, t
				ms = append(ms, mutant{x.OpPos, fmt.Sprintf("%s -> %s", old, t), func() { x.Op = t }, func() { x.Op = old }})
			}
		case *ast.IfStmt:
			x, old := x, x.Cond
			ms = append(ms, mutant{x.Pos(), "negate if condition", func() { x.Cond = &ast.UnaryExpr{Op: token.NOT, X: &ast.ParenExpr{X: old}} }, func() { x.Cond = old }})
			if x.Else == nil {
				oldBody := x.Body
				ms = append(ms, mutant{x.Pos(), "drop if body", func() { x.Body = &ast.BlockStmt{Lbrace: oldBody.Lbrace, Rbrace: oldBody.Rbrace} }, func() { x.Body = oldBody }})
			}
		case *ast.BlockStmt:
			for i, st := range x.List {
				i, st, x := i, st, x
				switch s := st.(type) {
				case *ast.ExprStmt, *ast.IncDecStmt, *ast.DeferStmt, *ast.GoStmt:
					if _, ok := st.(*ast.GoStmt); ok {
						continue
					}
					ms = append(ms, mutant{st.Pos(), "delete statement", func() { x.List[i] = &ast.EmptyStmt{Semicolon: st.Pos()} }, func() { x.List[i] = st }})
				case *ast.AssignStmt:
					if s.Tok == token.ASSIGN || s.Tok == token.OR_ASSIGN || s.Tok == token.ADD_ASSIGN || s.Tok == token.AND_NOT_ASSIGN {
						ms = append(ms, mutant{st.Pos(), "delete assignment", func() { x.List[i] = &ast.EmptyStmt{Semicolon: st.Pos()} }, func() { x.List[i] = st }})
					}
				case *ast.BranchStmt:
					if s.Tok == token.CONTINUE && s.Label == nil {
						ms = append(ms, mutant{st.Pos(), "continue -> break", func() { s.Tok = token.BREAK }, func() { s.Tok = token.CONTINUE }})
					} else if s.Tok == token.BREAK && s.Label == nil {
						ms = append(ms, mutant{st.Pos(), "break -> continue", func() { s.Tok = token.CONTINUE }, func() { s.Tok = token.BREAK }})
					}
				}
			}
		case *ast.ReturnStmt:
			for i, r := range x.Results {
				if id, ok := r.(*ast.Ident); ok && (id.Name == "true" || id.Name == "false") {
					i, x, old := i, x, id
					flip := "true"
					if id.Name == "true" {
						flip = "false"
					}
					ms = append(ms, mutant{x.Pos(), "return " + id.Name + " -> " + flip, func() { x.Results[i] = ast.NewIdent(flip) }, func() { x.Results[i] = old }})
				}
			}
		case *ast.BasicLit:
			if x.Kind == token.INT && (x.Value == "0" || x.Value == "1" || x.Value == "9" || x.Value == "10") {
				x, old := x, x.Value
				nv := map[string]string{"0": "1", "1": "0", "9": "8", "10": "9"}[old]
				ms = append(ms, mutant{x.Pos(), "literal " + old + " -> " + nv, func() { x.Value = nv }, func() { x.Value = old }})
			}
		}
		return true
	})
	return ms
}

func main() {
	list := flag.Bool("list", false, "list mutants")
	apply := flag.Int("apply", -1, "apply mutant N")
	flag.Parse()
	file := flag.Arg(0)
	fset := token.NewFileSet()
	f, err := parser.ParseFile(fset, file, nil, parser.ParseComments)
	if err != nil {
		fmt.Fprintln(os.Stderr, err)
		os.Exit(1)
	}
	ms := collect(f, fset)
	if *list {
		for i, m := range ms {
			p := fset.Position(m.pos)
			fmt.Printf("%d\t%s:%d\t%s\n", i, p.Filename, p.Line, m.desc)
		}
		return
	}
	if *apply < 0 || *apply >= len(ms) {
		fmt.Fprintln(os.Stderr, "no such mutant")
		os.Exit(1)
	}
	ms[*apply].apply()
	var b bytes.Buffer
	if err := printer.Fprint(&b, fset, f); err != nil {
		fmt.Fprintln(os.Stderr, err)
		os.Exit(1)
	}
	os.Stdout.Write(b.Bytes())
}
