package e3

import (
	"testing"

	"verif/harness/engine"
)

func TestMain(m *testing.M) { engine.Main(m) }
