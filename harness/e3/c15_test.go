package e3

import (
	"fmt"
	"math/bits"
	"os"
	"path/filepath"
	"syscall"
	"testing"

	"github.com/fsnotify/fsnotify"
	"golang.org/x/sys/unix"

	"verif/harness/engine"
)

// The documented inotify translation table, one row per native flag
// (README "Create/Write/Remove/Rename/Chmod" + inotify(7)); housekeeping
// flags yield nothing.
var inotifyRows = []struct {
	bit  uint32
	name string
	op   fsnotify.Op
}{
	{unix.IN_CREATE, "IN_CREATE", fsnotify.Create},
	{unix.IN_MOVED_TO, "IN_MOVED_TO", fsnotify.Create},
	{unix.IN_DELETE, "IN_DELETE", fsnotify.Remove},
	{unix.IN_DELETE_SELF, "IN_DELETE_SELF", fsnotify.Remove},
	{unix.IN_MODIFY, "IN_MODIFY", fsnotify.Write},
	{unix.IN_MOVED_FROM, "IN_MOVED_FROM", fsnotify.Rename},
	{unix.IN_MOVE_SELF, "IN_MOVE_SELF", fsnotify.Rename},
	{unix.IN_ATTRIB, "IN_ATTRIB", fsnotify.Chmod},
	{unix.IN_OPEN, "IN_OPEN", fsnotify.VerifOpOpen},
	{unix.IN_ACCESS, "IN_ACCESS", fsnotify.VerifOpRead},
	{unix.IN_CLOSE_WRITE, "IN_CLOSE_WRITE", fsnotify.VerifOpCloseWrite},
	{unix.IN_CLOSE_NOWRITE, "IN_CLOSE_NOWRITE", fsnotify.VerifOpCloseRead},
	{unix.IN_ISDIR, "IN_ISDIR", 0},
	{unix.IN_IGNORED, "IN_IGNORED", 0},
	{unix.IN_Q_OVERFLOW, "IN_Q_OVERFLOW", 0},
	{unix.IN_UNMOUNT, "IN_UNMOUNT", 0},
}

// The documented request table: which native flags are needed to observe
// each operation.
var requestRows = []struct {
	op   fsnotify.Op
	mask uint32
}{
	{fsnotify.Create, unix.IN_CREATE},
	{fsnotify.Write, unix.IN_MODIFY},
	{fsnotify.Remove, unix.IN_DELETE | unix.IN_DELETE_SELF},
	{fsnotify.Rename, unix.IN_MOVED_FROM | unix.IN_MOVED_TO | unix.IN_MOVE_SELF},
	{fsnotify.Chmod, unix.IN_ATTRIB},
	{fsnotify.VerifOpOpen, unix.IN_OPEN},
	{fsnotify.VerifOpRead, unix.IN_ACCESS},
	{fsnotify.VerifOpCloseWrite, unix.IN_CLOSE_WRITE},
	{fsnotify.VerifOpCloseRead, unix.IN_CLOSE_NOWRITE},
}

type c15Replay struct {
	Prop    string `json:"prop"`
	Backend string `json:"backend"`
	Kind    string `json:"kind"`
	Mask    uint64 `json:"mask"`
	Cookie  uint32 `json:"cookie"`
	Ops     uint32 `json:"ops"`
	Msg     string `json:"msg"`
}

func (r c15Replay) Save(p string) error { return engine.SaveJSON(p, r) }

func fail15(t *testing.T, r c15Replay, err error) {
	r.Prop = "C15"
	r.Msg = err.Error()
	p := engine.SaveReplay("C15", r)
	t.Fatalf("property C15 violated (replay %s): %v", p, err)
}

func inotifyMask(i uint32) uint32 {
	var m uint32
	for b, r := range inotifyRows {
		if i&(1<<uint(b)) != 0 {
			m |= r.bit
		}
	}
	return m
}

func checkInotifyTranslate(mask, cookie uint32) error {
	var want fsnotify.Op
	for _, r := range inotifyRows {
		if mask&r.bit != 0 {
			want |= r.op
		}
	}
	e := fsnotify.VerifInotifyNewEvent("n", mask, cookie)
	if e.Op != want {
		return fmt.Errorf("inotify mask %s cookie %d translates to %s, documented union is %s", engine.MaskString(mask), cookie, e.Op, want)
	}
	if e.Name != "n" {
		return fmt.Errorf("translation changed the name to %q", e.Name)
	}
	return nil
}

func fdinfoMask(w *fsnotify.Watcher) (uint32, uint64, error) {
	fd, _, _ := fsnotify.VerifInotifyState(w)
	ms, err := engine.Fdinfo(fd)
	if err != nil {
		return 0, 0, err
	}
	if len(ms) != 1 {
		return 0, 0, fmt.Errorf("expected one kernel mark, found %d", len(ms))
	}
	return ms[0].Mask, ms[0].Ino, nil
}

func checkInotifyRequest(w *fsnotify.Watcher, dir string, ops fsnotify.Op, nofollow bool) error {
	var want uint32
	for _, r := range requestRows {
		if ops&r.op != 0 {
			want |= r.mask
		}
	}
	opts := []interface{}{}
	_ = opts
	var err error
	// absent (nil) options are skipped wherever they stand in the list
	switch {
	case nofollow:
		err = w.AddWith(dir, fsnotify.VerifWithOps(ops), fsnotify.VerifWithNoFollow())
	case uint32(ops)%3 == 1:
		err = w.AddWith(dir, nil, fsnotify.VerifWithOps(ops))
	case uint32(ops)%3 == 2:
		err = w.AddWith(dir, fsnotify.VerifWithOps(ops), nil)
	default:
		err = w.AddWith(dir, fsnotify.VerifWithOps(ops))
	}
	if err != nil {
		return fmt.Errorf("AddWith(ops=%s): %v", ops, err)
	}
	defer w.Remove(dir)
	got, ino, err := fdinfoMask(w)
	if err != nil {
		return err
	}
	if got != want {
		return fmt.Errorf("requesting %s subscribes to %s, documented need is %s", ops, engine.MaskString(got), engine.MaskString(want))
	}
	// consistency of the two tables: every requested op is produced by some
	// subscribed flag, every subscribed flag produces a requested op (Create
	// counts as requested with Rename: a move in is reported as Create).
	var producible fsnotify.Op
	for _, r := range inotifyRows {
		if got&r.bit != 0 {
			producible |= r.op
			allowed := ops
			if ops&fsnotify.Rename != 0 {
				allowed |= fsnotify.Create
			}
			if r.op&allowed == 0 {
				return fmt.Errorf("requesting %s subscribes to %s, which reports the unrequested %s", ops, r.name, r.op)
			}
		}
	}
	if ops&^producible != 0 {
		return fmt.Errorf("requesting %s: %s cannot be observed with the subscription %s", ops, ops&^producible, engine.MaskString(got))
	}
	var st syscall.Stat_t
	if nofollow {
		err = syscall.Lstat(dir, &st)
	} else {
		err = syscall.Stat(dir, &st)
	}
	if err == nil && st.Ino != ino {
		return fmt.Errorf("nofollow=%v: watch is on inode %d, want %d", nofollow, ino, st.Ino)
	}
	return nil
}

func TestC15Inotify(t *testing.T) {
	st := engine.StatsFor("C15")
	// translate: all 2^16 combinations of the 16 flags x cookie in {0, 7}
	for i := uint32(0); i < 1<<16; i++ {
		m := inotifyMask(i)
		for _, c := range []uint32{0, 7} {
			st.Eval()
			if err := checkInotifyTranslate(m, c); err != nil {
				fail15(t, c15Replay{Backend: "inotify", Kind: "translate", Mask: uint64(m), Cookie: c}, err)
			}
		}
		if bits.OnesCount32(i) >= 2 {
			st.NonTrivial(fmt.Sprintf("in%x", m), fmt.Sprintf("inotify %s -> %s", engine.MaskString(m), fsnotify.VerifInotifyNewEvent("n", m, 0).Op))
		}
	}
	st.Extra["inotify_translate_masks"] = 1 << 16
	// request: all 2^9-1 non-empty operation sets x nofollow
	dir := t.TempDir()
	target := filepath.Join(dir, "d")
	os.Mkdir(target, 0o755)
	link := filepath.Join(dir, "l")
	os.Symlink(target, link)
	w, err := fsnotify.NewWatcher()
	if err != nil {
		engine.ExitInconclusive(err.Error())
	}
	defer w.Close()
	for ops := uint32(1); ops < 1<<9; ops++ {
		for _, nf := range []bool{false, true} {
			st.Eval()
			if !fsnotify.VerifSupports(w, fsnotify.Op(ops)) {
				fail15(t, c15Replay{Backend: "inotify", Kind: "supports", Ops: ops}, fmt.Errorf("inotify claims not to support %s", fsnotify.Op(ops)))
			}
			if err := checkInotifyRequest(w, link, fsnotify.Op(ops), nf); err != nil {
				fail15(t, c15Replay{Backend: "inotify", Kind: "request", Ops: ops, Cookie: map[bool]uint32{true: 1}[nf]}, err)
			}
		}
		if bits.OnesCount32(ops) >= 2 {
			st.NonTrivial(fmt.Sprintf("req%x", ops), fmt.Sprintf("request %s (follow and nofollow via symlink): kernel mask read back from fdinfo", fsnotify.Op(ops)))
		}
	}
	st.Extra["inotify_request_sets"] = 1<<9 - 1
	// the same path requested several times: everything requested so far must
	// stay observable, nothing unrelated may be subscribed (all ordered pairs of
	// the 2^5-1 portable sets plus the default set, and a sample of triples)
	sets := []uint32{0}
	for o := uint32(1); o < 32; o++ {
		sets = append(sets, o)
	}
	nseq := 0
	check := func(seq []uint32) {
		var union uint32
		for i, o := range seq {
			var err error
			if o == 0 {
				err = w.Add(target)
				o = 0x1f
			} else {
				err = w.AddWith(target, fsnotify.VerifWithOps(fsnotify.Op(o)))
			}
			if err != nil {
				fail15(t, c15Replay{Backend: "inotify", Kind: "request-seq", Ops: o}, fmt.Errorf("Add #%d of %v: %v", i+1, seq, err))
			}
			union |= o
			var want uint32
			for _, r := range requestRows {
				if fsnotify.Op(union)&r.op != 0 {
					want |= r.mask
				}
			}
			got, _, err := fdinfoMask(w)
			if err != nil {
				engine.ExitInconclusive(err.Error())
			}
			if got != want {
				w.Remove(target)
				fail15(t, c15Replay{Backend: "inotify", Kind: "request-seq", Ops: seq[0] | seq[len(seq)-1]<<9, Mask: uint64(i)},
					fmt.Errorf("after requesting %v on one path in turn (0 = default set) the kernel mask is %s, the operations requested so far need %s", seq[:i+1], engine.MaskString(got), engine.MaskString(want)))
			}
		}
		w.Remove(target)
		nseq++
		st.Eval()
	}
	for _, a := range sets {
		for _, b := range sets {
			check([]uint32{a, b})
		}
	}
	x := uint32(2463534242)
	for i := 0; i < 2000; i++ {
		x ^= x << 13
		x ^= x >> 17
		x ^= x << 5
		check([]uint32{sets[x%32], sets[(x>>8)%32], sets[(x>>16)%32]})
	}
	st.NonTrivial("request-seq", fmt.Sprintf("%d sequences of 2-3 requests on one path (all %d ordered pairs, 2000 triples): kernel mask == union of the documented rows after every request", nseq, len(sets)*len(sets)))
	st.Extra["inotify_request_sequences"] = nseq
	st.Extra["exhaustive"] = true
}

func TestReplayC15Inotify(t *testing.T) {
	p := os.Getenv("VERIF_REPLAY")
	if p == "" {
		t.Skip()
	}
	var r c15Replay
	if err := engine.LoadJSON(p, &r); err != nil {
		t.Fatal(err)
	}
	if r.Backend != "inotify" {
		t.Skip("other backend")
	}
	engine.StatsFor("C15").Eval()
	var err error
	switch r.Kind {
	case "translate":
		err = checkInotifyTranslate(uint32(r.Mask), r.Cookie)
	case "request", "supports":
		dir := t.TempDir()
		target := filepath.Join(dir, "d")
		os.Mkdir(target, 0o755)
		link := filepath.Join(dir, "l")
		os.Symlink(target, link)
		w, e := fsnotify.NewWatcher()
		if e != nil {
			engine.ExitInconclusive(e.Error())
		}
		defer w.Close()
		err = checkInotifyRequest(w, link, fsnotify.Op(r.Ops), r.Cookie == 1)
	}
	if err != nil {
		t.Fatalf("property C15 violated (replay %s): %v", p, err)
	}
}
