package e3

import (
	"fmt"
	"math/bits"
	"os"
	"strconv"
	"strings"
	"testing"
	"unicode/utf8"

	"github.com/fsnotify/fsnotify"
	"pgregory.net/rapid"

	"verif/harness/engine"
)

// Documented operations and their printed names (README / Op documentation),
// written independently of Op.String.
var opNames = map[string]fsnotify.Op{
	"CREATE": fsnotify.Create, "WRITE": fsnotify.Write, "REMOVE": fsnotify.Remove, "RENAME": fsnotify.Rename, "CHMOD": fsnotify.Chmod,
	"OPEN": fsnotify.VerifOpOpen, "READ": fsnotify.VerifOpRead, "CLOSE_WRITE": fsnotify.VerifOpCloseWrite, "CLOSE_READ": fsnotify.VerifOpCloseRead,
}

const definedMask = fsnotify.Op(0x1ff)

func TestOpConstants(t *testing.T) {
	// the nine operations are nine distinct single bits filling 0x1ff
	var all fsnotify.Op
	for n, o := range opNames {
		if bits.OnesCount32(uint32(o)) != 1 {
			t.Fatalf("%s is not a single bit: %#x", n, uint32(o))
		}
		if all&o != 0 {
			t.Fatalf("%s overlaps another operation", n)
		}
		all |= o
	}
	if all != definedMask {
		t.Fatalf("operations cover %#x, want 0x1ff", uint32(all))
	}
}

// checkOpString checks the rendering of o against the set semantics and
// returns the parsed names.
func checkOpString(o fsnotify.Op, full []string) (err error) {
	defer func() {
		if r := recover(); r != nil {
			err = fmt.Errorf("Op(%#x).String() panicked: %v", uint32(o), r)
		}
	}()
	s := o.String()
	defined := o & definedMask
	if defined == 0 {
		if s != "[no events]" {
			return fmt.Errorf("Op(%#x).String()=%q, want \"[no events]\"", uint32(o), s)
		}
		return nil
	}
	if s == "[no events]" || s == "" {
		return fmt.Errorf("Op(%#x).String()=%q although defined operations are present", uint32(o), s)
	}
	parts := strings.Split(s, "|")
	var got fsnotify.Op
	for _, p := range parts {
		b, ok := opNames[p]
		if !ok {
			return fmt.Errorf("Op(%#x).String()=%q contains unknown name %q", uint32(o), s, p)
		}
		if got&b != 0 {
			return fmt.Errorf("Op(%#x).String()=%q names %s twice", uint32(o), s, p)
		}
		got |= b
	}
	if got != defined {
		return fmt.Errorf("Op(%#x).String()=%q names the set %#x, want %#x", uint32(o), s, uint32(got), uint32(defined))
	}
	// fixed order: a subsequence of the rendering of the full set
	i := 0
	for _, p := range parts {
		for i < len(full) && full[i] != p {
			i++
		}
		if i == len(full) {
			return fmt.Errorf("Op(%#x).String()=%q is not in the order of the full rendering %v", uint32(o), s, full)
		}
		i++
	}
	if s2 := (o & definedMask).String(); s2 != s {
		return fmt.Errorf("undefined bits alter the text: Op(%#x)=%q, Op(%#x)=%q", uint32(o), s, uint32(o&definedMask), s2)
	}
	return nil
}

func checkHas(o, h fsnotify.Op) (err error) {
	defer func() {
		if r := recover(); r != nil {
			err = fmt.Errorf("Op(%#x).Has(%#x) panicked: %v", uint32(o), uint32(h), r)
		}
	}()
	want := o&h != 0
	if got := o.Has(h); got != want {
		return fmt.Errorf("Op(%#x).Has(%#x)=%v, want %v", uint32(o), uint32(h), got, want)
	}
	if got := (fsnotify.Event{Op: o}).Has(h); got != want {
		return fmt.Errorf("Event{Op:%#x}.Has(%#x)=%v, want %v", uint32(o), uint32(h), got, want)
	}
	// the answer depends on the operations only: not on the name, and not on
	// the old name a Create may carry
	for _, e := range []fsnotify.Event{fsnotify.VerifMakeEvent("n", "old", o), fsnotify.VerifMakeEvent("n", "n", o), fsnotify.VerifMakeEvent("", "", o)} {
		if got := e.Has(h); got != want {
			return fmt.Errorf("Event %s (Op %#x) .Has(%#x)=%v, want %v", e, uint32(o), uint32(h), got, want)
		}
	}
	return nil
}

// checkEventString parses Event.String back into its parts.
func checkEventString(name, from string, o fsnotify.Op) (err error) {
	defer func() {
		if r := recover(); r != nil {
			err = fmt.Errorf("Event{%q,%#x,from %q}.String() panicked: %v", name, uint32(o), from, r)
		}
	}()
	e := fsnotify.VerifMakeEvent(name, from, o)
	s := e.String()
	os := o.String()
	if !strings.HasPrefix(s, os) {
		return fmt.Errorf("Event.String()=%q does not start with Op.String()=%q", s, os)
	}
	rest := strings.TrimLeft(s[len(os):], " ")
	if len(rest) == len(s[len(os):]) {
		return fmt.Errorf("Event.String()=%q: no space after the operations", s)
	}
	q, err := strconv.QuotedPrefix(rest)
	if err != nil {
		return fmt.Errorf("Event.String()=%q: no quoted name after the operations: %v", s, err)
	}
	u, err := strconv.Unquote(q)
	if err != nil || u != name {
		return fmt.Errorf("Event.String()=%q: quoted name %s unquotes to %q (%v), want %q", s, q, u, err, name)
	}
	rest = rest[len(q):]
	if from == "" {
		if rest != "" {
			return fmt.Errorf("Event.String()=%q: trailing %q without an old name", s, rest)
		}
		return nil
	}
	const arrow = " ← "
	if !strings.HasPrefix(rest, arrow) {
		return fmt.Errorf("Event.String()=%q: old name %q not shown as new ← old", s, from)
	}
	rest = rest[len(arrow):]
	q2, err := strconv.QuotedPrefix(rest)
	if err != nil {
		return fmt.Errorf("Event.String()=%q: old name not quoted: %v", s, err)
	}
	u2, err := strconv.Unquote(q2)
	if err != nil || u2 != from {
		return fmt.Errorf("Event.String()=%q: old name %s unquotes to %q, want %q", s, q2, u2, from)
	}
	if rest[len(q2):] != "" {
		return fmt.Errorf("Event.String()=%q: trailing text %q", s, rest[len(q2):])
	}
	return nil
}

type c16Replay struct {
	Prop string `json:"prop"`
	Kind string `json:"kind"`
	O    uint32 `json:"o"`
	H    uint32 `json:"h"`
	Name string `json:"name_quoted"`
	From string `json:"from_quoted"`
	Msg  string `json:"msg"`
}

func (r c16Replay) Save(p string) error { return engine.SaveJSON(p, r) }

func fail16(t interface{ Fatalf(string, ...any) }, r c16Replay, err error) {
	r.Prop = "C16"
	r.Msg = err.Error()
	p := engine.SaveReplay("C16", r)
	t.Fatalf("property C16 violated (replay %s): %v", p, err)
}

var hostileNames = []string{"", " ", "\"", "\\", "a\"b", "a\nb", "\x00", "\xff\xfe", "é", "日本", "a ← b", "\" ← \"x", strings.Repeat("x", 4096), "%s%d", "'", "`", "←", "\t", "\r\n"}

func TestC16(t *testing.T) {
	st := engine.StatsFor("C16")
	full := strings.Split(definedMask.String(), "|")
	if len(full) != 9 {
		fail16(t, c16Replay{Kind: "string", O: uint32(definedMask)}, fmt.Errorf("full set renders as %q: not nine names", definedMask.String()))
	}
	// 1. exhaustive over the low 16 bits
	probes := []fsnotify.Op{0, 0xffffffff, 0x1ff, 0xfffffe00}
	for i := 0; i < 32; i++ {
		probes = append(probes, 1<<i)
	}
	x := uint32(0x9e3779b9)
	for i := 0; i < 64; i++ { // fixed pseudo-random probe sets
		x ^= x << 13
		x ^= x >> 17
		x ^= x << 5
		probes = append(probes, fsnotify.Op(x), fsnotify.Op(x&0xffff), fsnotify.Op(x&0x1ff))
	}
	seen := map[string]uint32{}
	for o := uint32(0); o < 1<<16; o++ {
		op := fsnotify.Op(o)
		if err := checkOpString(op, full); err != nil {
			fail16(t, c16Replay{Kind: "string", O: o}, err)
		}
		if o <= 0x1ff { // injectivity over the defined sets
			s := op.String()
			if prev, ok := seen[s]; ok {
				fail16(t, c16Replay{Kind: "string", O: o, H: prev}, fmt.Errorf("sets %#x and %#x both render as %q", prev, o, s))
			}
			seen[s] = o
		}
		for _, h := range probes {
			if err := checkHas(op, h); err != nil {
				fail16(t, c16Replay{Kind: "has", O: o, H: uint32(h)}, err)
			}
			st.Eval()
		}
		if o < 0x400 {
			for _, n := range hostileNames[:6] {
				if err := checkEventString(n, "", op); err != nil {
					fail16(t, c16Replay{Kind: "event", O: o, Name: strconv.QuoteToASCII(n)}, err)
				}
				if err := checkEventString(n, "old"+n, op); err != nil {
					fail16(t, c16Replay{Kind: "event", O: o, Name: strconv.QuoteToASCII(n), From: strconv.QuoteToASCII("old" + n)}, err)
				}
				st.Eval()
			}
		}
		if bits.OnesCount32(o) >= 2 {
			st.NonTrivial(fmt.Sprintf("o=%#x", o), fmt.Sprintf("Op(%#x).String()=%q; Has probed with %d sets", o, op.String(), len(probes)))
		}
	}
	for _, n := range hostileNames {
		for _, f := range hostileNames {
			if err := checkEventString(n, f, fsnotify.Create); err != nil {
				fail16(t, c16Replay{Kind: "event", O: 1, Name: strconv.QuoteToASCII(n), From: strconv.QuoteToASCII(f)}, err)
			}
			st.Eval()
		}
	}
	st.Extra["exhaustive_low16"] = true
	st.Extra["probe_sets"] = len(probes)

	// 2. sampled above
	rapid.Check(t, func(rt *rapid.T) {
		o := rapid.Uint32().Draw(rt, "o")
		h := rapid.Uint32().Draw(rt, "h")
		if rapid.Bool().Draw(rt, "highonly") {
			o &= 0xffff0000
		}
		name := string(rapid.SliceOfN(rapid.Byte(), 0, 40).Draw(rt, "name"))
		from := ""
		if rapid.Bool().Draw(rt, "renamed") {
			from = string(rapid.SliceOfN(rapid.Byte(), 1, 40).Draw(rt, "from"))
		}
		st.Eval()
		if err := checkOpString(fsnotify.Op(o), full); err != nil {
			fail16(rt, c16Replay{Kind: "string", O: o}, err)
		}
		if err := checkHas(fsnotify.Op(o), fsnotify.Op(h)); err != nil {
			fail16(rt, c16Replay{Kind: "has", O: o, H: h}, err)
		}
		if err := checkEventString(name, from, fsnotify.Op(o)); err != nil {
			fail16(rt, c16Replay{Kind: "event", O: o, Name: strconv.QuoteToASCII(name), From: strconv.QuoteToASCII(from)}, err)
		}
		if o>>16 != 0 && (!utf8.ValidString(name) || strings.ContainsAny(name, "\"\\\n")) {
			st.NonTrivial(fmt.Sprintf("hi o=%#x n=%q", o, name), fmt.Sprintf("Op(%#x) Has(%#x); Event name %q from %q -> %q", o, h, name, from, fsnotify.VerifMakeEvent(name, from, fsnotify.Op(o)).String()))
		}
	})
}

func TestReplayC16(t *testing.T) {
	p := os.Getenv("VERIF_REPLAY")
	if p == "" {
		t.Skip()
	}
	var r c16Replay
	if err := engine.LoadJSON(p, &r); err != nil {
		t.Fatal(err)
	}
	full := strings.Split(definedMask.String(), "|")
	name, _ := strconv.Unquote(r.Name)
	from, _ := strconv.Unquote(r.From)
	engine.StatsFor("C16").Eval()
	var err error
	switch r.Kind {
	case "string":
		err = checkOpString(fsnotify.Op(r.O), full)
		if err == nil && r.H != 0 && fsnotify.Op(r.O).String() == fsnotify.Op(r.H).String() && (r.O&0x1ff) != (r.H&0x1ff) {
			err = fmt.Errorf("sets %#x and %#x render the same", r.O, r.H)
		}
	case "has":
		err = checkHas(fsnotify.Op(r.O), fsnotify.Op(r.H))
	case "event":
		err = checkEventString(name, from, fsnotify.Op(r.O))
	}
	if err != nil {
		t.Fatalf("property C16 violated (replay %s): %v", p, err)
	}
}

// FuzzC16: the sampled part of C16 under Go's coverage-guided fuzzer (thorough tier).
func FuzzC16(f *testing.F) {
	st := engine.StatsFor("C16")
	full := strings.Split(definedMask.String(), "|")
	f.Add(uint32(0), uint32(0), []byte(""), []byte(""))
	f.Add(uint32(0x1ff), uint32(0xffffffff), []byte("a\"b\n"), []byte("\xff"))
	f.Add(uint32(1<<31|1), uint32(6), []byte("new"), []byte("old"))
	f.Fuzz(func(t *testing.T, o, h uint32, name, from []byte) {
		st.Eval()
		if err := checkOpString(fsnotify.Op(o), full); err != nil {
			fail16(t, c16Replay{Kind: "string", O: o}, err)
		}
		if err := checkHas(fsnotify.Op(o), fsnotify.Op(h)); err != nil {
			fail16(t, c16Replay{Kind: "has", O: o, H: h}, err)
		}
		if err := checkEventString(string(name), string(from), fsnotify.Op(o)); err != nil {
			fail16(t, c16Replay{Kind: "event", O: o, Name: strconv.QuoteToASCII(string(name)), From: strconv.QuoteToASCII(string(from))}, err)
		}
	})
}
