package engine

import (
	"encoding/json"
	"fmt"
	"os"
	"strconv"
	"strings"
)

// P is a path or file name made of arbitrary bytes; JSON form is the Go
// quoted-ASCII literal so that non-UTF-8 names survive a round trip.
type P string

func (p P) MarshalJSON() ([]byte, error) { return json.Marshal(strconv.QuoteToASCII(string(p))) }
func (p *P) UnmarshalJSON(b []byte) error {
	var s string
	if err := json.Unmarshal(b, &s); err != nil {
		return err
	}
	u, err := strconv.Unquote(s)
	if err != nil {
		return fmt.Errorf("bad quoted path %q: %w", s, err)
	}
	*p = P(u)
	return nil
}

// Step kinds. Filesystem operations are single primitive syscalls (see
// DESIGN.md E1); API operations call the Watcher under test; control steps
// drive the sentinel/plug protocol.
const (
	KCreate  = "create"  // open(P, O_CREAT|O_EXCL|O_WRONLY), close
	KWrite   = "write"   // open(P, O_WRONLY|O_APPEND), write N bytes, close
	KTrunc   = "trunc"   // truncate(P, N)
	KChmod   = "chmod"   // chmod(P, N)
	KUnlink  = "unlink"  // unlink(P)
	KMkdir   = "mkdir"   // mkdir(P)
	KRmdir   = "rmdir"   // rmdir(P)
	KRename  = "rename"  // rename(P, Q)
	KLink    = "link"    // link(P, Q)
	KSymlink = "symlink" // symlink(target P, linkpath Q)
	KHold    = "hold"    // open(P, O_RDONLY) and keep it as descriptor slot N
	KRelease = "release" // close descriptor slot N
	KRmr     = "rmr"     // remove P recursively
	KMount   = "mount"   // mount tmpfs on P
	KUmount  = "umount"  // lazy-free umount of P

	KRAdd    = "radd"    // Watcher.Add(P + "/...") (recursive mode)
	KRRemove = "rremove" // Watcher.Remove(P + "/...")

	KRRemoveNow = "rremove!" // ... inside a burst, without waiting for quiescence
	KRAddNow    = "radd!"    // Watcher.Add(P + "/...") while events may still be pending

	KAdd       = "add"     // Watcher.Add(P)
	KRemove    = "remove"  // Watcher.Remove(P)
	KList      = "list"    // Watcher.WatchList()
	KRemoveNow = "remove!" // Watcher.Remove(P) inside a burst, without waiting for quiescence

	KXNew    = "xnew"    // create another Watcher (capacity N) that lives beside the one under test
	KXAdd    = "xadd"    // other Watcher N: Add(P)
	KXRemove = "xremove" // other Watcher N: Remove(P)
	KXClose  = "xclose"  // other Watcher N: Close()
	KAbsorb  = "absorb"  // start an absorb segment: nobody receives until the next sync

	KOverflow = "overflow" // park the reader and create N entries in directory P (more than the kernel queue holds)

	KSync   = "sync"  // sentinel: wait until everything so far is delivered, compare
	KPlug   = "plug"  // park the reader goroutine in a channel send
	KPause  = "pause" // the consumer stays away for N milliseconds (events may be pending)
	KRecv   = "recv"  // blocking receive of exactly N events (bounded by what the model expects)
	KAddNow = "add!"  // Watcher.Add(P) while events may still be pending (inside a burst)
	KPoll   = "poll"  // non-blocking receive of up to N events (bursty consumer)
	KFdchk  = "fdchk" // compare kernel marks with the model (implies sync)
)

type Step struct {
	K string `json:"k"`
	P P      `json:"p,omitempty"`
	Q P      `json:"q,omitempty"`
	N int    `json:"n,omitempty"`
}

func (s Step) String() string {
	switch s.K {
	case KRename, KLink, KSymlink:
		return fmt.Sprintf("%s(%q,%q)", s.K, string(s.P), string(s.Q))
	case KAdd:
		if s.N != 0 {
			return fmt.Sprintf("add(%q,ops=%d)", string(s.P), s.N)
		}
		return fmt.Sprintf("add(%q)", string(s.P))
	case KWrite, KTrunc, KChmod, KHold, KOverflow:
		return fmt.Sprintf("%s(%q,%d)", s.K, string(s.P), s.N)
	case KRelease, KPoll, KXNew, KXClose, KPause, KRecv:
		return fmt.Sprintf("%s(%d)", s.K, s.N)
	case KXAdd, KXRemove:
		return fmt.Sprintf("%s(%d,%q)", s.K, s.N, string(s.P))
	case KSync, KPlug, KList, KFdchk, KAbsorb:
		return s.K
	}
	return fmt.Sprintf("%s(%q)", s.K, string(s.P))
}

// Case is one complete, replayable input of the E1 engine.
type Case struct {
	Prop    string `json:"prop"`
	Buf     int    `json:"buf"`               // Events capacity; -1 = NewWatcher()
	Recurse bool   `json:"recurse,omitempty"` // C19
	Setup   []Step `json:"setup,omitempty"`   // run before the Watcher exists, not observed
	Steps   []Step `json:"steps"`
}

func (c *Case) String() string {
	var b strings.Builder
	fmt.Fprintf(&b, "buf=%d", c.Buf)
	if len(c.Setup) > 0 {
		b.WriteString(" setup:")
		for _, s := range c.Setup {
			b.WriteString(" " + s.String())
		}
		b.WriteString(" ;")
	}
	for _, s := range c.Steps {
		b.WriteString(" " + s.String())
	}
	return b.String()
}

func (c *Case) Save(path string) error {
	b, err := json.MarshalIndent(c, "", " ")
	if err != nil {
		return err
	}
	return os.WriteFile(path, b, 0o644)
}

func LoadCase(path string) (*Case, error) {
	b, err := os.ReadFile(path)
	if err != nil {
		return nil, err
	}
	var c Case
	if err := json.Unmarshal(b, &c); err != nil {
		return nil, err
	}
	return &c, nil
}
