package engine

import "time"

// Shrink minimises a failing case by delta debugging on its explicit step
// lists (rapid's own shrinking works on the random bit stream, which is slow
// for state-dependent generators). A candidate is kept when it still produces
// a finding of one of the classes in `owned`. budget bounds re-executions.
func Shrink(c *Case, owned map[string]bool, budget int) *Case {
	// failures that show as a time-out are expensive to re-execute: use a
	// short sentinel time-out while shrinking and stop after 90 s in any case
	// (a candidate that merely became slow is then not accepted as failing:
	// lateness without proof is an Inconclusive panic, handled by Exec)
	oldTimeout := SyncTimeout
	SyncTimeout = 6 * time.Second
	defer func() { SyncTimeout = oldTimeout }()
	stopAt := time.Now().Add(90 * time.Second)
	fails := func(x *Case) bool {
		if budget <= 0 || time.Now().After(stopAt) {
			budget = 0
			return false
		}
		// a candidate must fail twice in a row: prefers reproductions that do
		// not depend on scheduler luck (e.g. keeps the plug of a burst)
		for rep := 0; rep < 2; rep++ {
			budget--
			w, _ := ExecQuiet(x)
			if w == nil {
				return false // no verdict for this candidate: not taken
			}
			bad := false
			for _, f := range w.Findings {
				if owned[f.Class] {
					bad = true
				}
			}
			if !bad {
				return false
			}
		}
		return true
	}
	cur := *c
	cur.Steps = append([]Step(nil), c.Steps...)
	cur.Setup = append([]Step(nil), c.Setup...)

	ddmin := func(get func() []Step, set func([]Step)) {
		n := 2
		for len(get()) >= 1 && budget > 0 {
			steps := get()
			if n > len(steps) {
				n = len(steps)
			}
			chunk := (len(steps) + n - 1) / n
			reduced := false
			for start := 0; start < len(steps); start += chunk {
				end := start + chunk
				if end > len(steps) {
					end = len(steps)
				}
				cand := append(append([]Step(nil), steps[:start]...), steps[end:]...)
				set(cand)
				if fails(&cur) {
					reduced = true
					if n > 2 {
						n--
					}
					break
				}
				set(steps)
			}
			if !reduced {
				if chunk <= 1 {
					break
				}
				n *= 2
			}
		}
	}
	for round := 0; round < 3 && budget > 0; round++ {
		before := len(cur.Steps) + len(cur.Setup)
		ddmin(func() []Step { return cur.Steps }, func(s []Step) { cur.Steps = s })
		ddmin(func() []Step { return cur.Setup }, func(s []Step) { cur.Setup = s })
		if len(cur.Steps)+len(cur.Setup) == before {
			break
		}
	}
	// simplify spellings and sizes
	for i := range cur.Steps {
		if cur.Steps[i].K == KWrite && cur.Steps[i].N != 1 {
			old := cur.Steps[i].N
			cur.Steps[i].N = 1
			if !fails(&cur) {
				cur.Steps[i].N = old
			}
		}
	}
	return &cur
}
