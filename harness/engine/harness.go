package engine

import (
	"crypto/sha1"
	"encoding/hex"
	"encoding/json"
	"fmt"
	"os"
	"path/filepath"
	"sort"
	"strings"
	"sync"
	"testing"

	"pgregory.net/rapid"
)

// Stats is what one test process reports to the driver.
type Stats struct {
	Prop        string         `json:"prop"`
	Evaluations int            `json:"evaluations"`
	Nontrivial  int            `json:"nontrivial"`
	Skeletons   []string       `json:"skeletons"` // hashes of distinct non-trivial cases
	Samples     []string       `json:"samples"`
	Feat        map[string]int `json:"features"`
	Classes     map[string]int `json:"finding_classes"`
	Events      int            `json:"events_delivered"`
	OpsOK       int            `json:"ops_ok"`
	OpsFailed   int            `json:"ops_failed"`
	Extra       map[string]any `json:"extra,omitempty"`
	Known       map[string]int `json:"known_findings,omitempty"`

	mu   sync.Mutex
	skel map[string]bool
}

// known findings --------------------------------------------------------------

type knownFile struct {
	Findings []struct {
		Property  string `json:"property"`
		Signature string `json:"signature"`
	} `json:"findings"`
}

var knownOnce sync.Once
var knownSigs map[string]bool

// IsKnown reports whether sig is listed as a recorded, not repaired defect in
// the committed known_findings.json ($VERIF_KNOWN). The file is only read.
func IsKnown(sig string) bool {
	knownOnce.Do(func() {
		knownSigs = map[string]bool{}
		p := os.Getenv("VERIF_KNOWN")
		if p == "" {
			if home := os.Getenv("VERIF_HOME"); home != "" {
				p = filepath.Join(home, "known_findings.json")
			} else {
				p = "/verif/known_findings.json"
			}
		}
		var k knownFile
		if err := LoadJSON(p, &k); err == nil {
			for _, f := range k.Findings {
				knownSigs[f.Signature] = true
			}
		}
	})
	return knownSigs[sig]
}

var stats = map[string]*Stats{}
var statsMu sync.Mutex

func StatsFor(prop string) *Stats {
	statsMu.Lock()
	defer statsMu.Unlock()
	s := stats[prop]
	if s == nil {
		s = &Stats{Prop: prop, Feat: map[string]int{}, Classes: map[string]int{}, skel: map[string]bool{}, Extra: map[string]any{}, Known: map[string]int{}}
		stats[prop] = s
	}
	return s
}

func (s *Stats) Eval() { s.mu.Lock(); s.Evaluations++; s.mu.Unlock() }

func (s *Stats) AddKnown(k string, n int) { s.mu.Lock(); s.Known[k] += n; s.mu.Unlock() }

func (s *Stats) AddEval(n int) { s.mu.Lock(); s.Evaluations += n; s.mu.Unlock() }

func (s *Stats) AddFeat(k string, n int) { s.mu.Lock(); s.Feat[k] += n; s.mu.Unlock() }

// NonTrivial records a non-trivial case by its skeleton; sample is kept for
// the first few distinct ones.
func (s *Stats) NonTrivial(skeleton, sample string) {
	s.mu.Lock()
	defer s.mu.Unlock()
	s.Nontrivial++
	h := sha1.Sum([]byte(skeleton))
	k := hex.EncodeToString(h[:8])
	if !s.skel[k] {
		s.skel[k] = true
		if len(s.Samples) < 6 {
			if len(sample) > 1500 {
				sample = sample[:1500] + "…"
			}
			s.Samples = append(s.Samples, sample)
		}
	}
}

// WriteStats dumps all collected stats to $VERIF_STATS (a JSON list).
func WriteStats() {
	path := os.Getenv("VERIF_STATS")
	if path == "" {
		return
	}
	for _, a := range os.Args {
		if strings.HasPrefix(a, "-test.fuzzworker") {
			// native fuzzing runs the target in worker processes: one stats file each
			path += fmt.Sprintf(".w%d", os.Getpid())
		}
	}
	statsMu.Lock()
	defer statsMu.Unlock()
	var all []*Stats
	for _, s := range stats {
		s.Skeletons = s.Skeletons[:0]
		for k := range s.skel {
			s.Skeletons = append(s.Skeletons, k)
		}
		sort.Strings(s.Skeletons)
		all = append(all, s)
	}
	b, _ := json.MarshalIndent(all, "", " ")
	os.WriteFile(path, b, 0o644)
}

// Main is the TestMain body shared by the test packages.
func Main(m *testing.M) {
	code := m.Run()
	WriteStats()
	os.Exit(code)
}

// ExitInconclusive stops the process with the code the driver maps to 2.
func ExitInconclusive(msg string) {
	if violationSaved != "" {
		// a violation was established and its replay written earlier in this
		// process; this is a re-execution (the library's shrinking) that ended
		// without verdict. The verdict stands.
		fmt.Fprintf(os.Stderr, "note: a re-execution while shrinking ended without verdict (%s); the violation found before stands\n--- FAIL: violation (replay %s)\n", msg, violationSaved)
		WriteStats()
		os.Exit(1)
	}
	fmt.Fprintln(os.Stderr, "INCONCLUSIVE:", msg)
	WriteStats()
	os.Exit(3)
}

var unownedWedges int

// violationSaved is the replay path of the first violation of this process.
var violationSaved string

// Guard converts an Inconclusive panic into process exit 3 (so that rapid
// does not try to shrink an environment problem).
func Guard() {
	if r := recover(); r != nil {
		if inc, ok := r.(Inconclusive); ok {
			ExitInconclusive(inc.Msg)
		}
		panic(r)
	}
}

func journal(c *Case) {
	if p := os.Getenv("VERIF_JOURNAL"); p != "" {
		c.Save(p)
	}
}

// SaveReplay writes the failing case; rapid runs the shrunk case last, so the
// last write is the minimal one.
func SaveReplay(name string, v interface{ Save(string) error }) string {
	dir := os.Getenv("VERIF_REPLAY_DIR")
	if dir == "" {
		return ""
	}
	p := filepath.Join(dir, name+".json")
	v.Save(p)
	if violationSaved == "" {
		violationSaved = p
	}
	return p
}

// Skeleton abstracts a case to its shape: step kinds, which directory each
// path is in, and whether the step succeeded.
func Skeleton(c *Case, w *World) string {
	var b strings.Builder
	fmt.Fprintf(&b, "buf%d|", c.Buf)
	for i, s := range c.Steps {
		b.WriteString(s.K)
		if s.P != "" {
			b.WriteString(":" + filepath.Dir(string(s.P)))
		}
		if s.Q != "" {
			b.WriteString(">" + filepath.Dir(string(s.Q)))
		}
		if w != nil && i < len(w.StepErrs) && w.StepErrs[i] != "" {
			b.WriteString("!")
		}
		b.WriteString(" ")
	}
	return b.String()
}

// Exec runs a case with journal and Inconclusive handling.
func Exec(c *Case) *World {
	defer Guard()
	journal(c)
	w := Run(c)
	w.Destroy()
	return w
}

// ExecQuiet executes a case like Exec, but an outcome without verdict does not
// end the process: it returns (nil, reason). Used where a violation has been
// found already (shrinking, re-execution of the shrunk case): a candidate
// that cannot be judged is simply not taken.
func ExecQuiet(c *Case) (w *World, noVerdict string) {
	defer func() {
		if r := recover(); r != nil {
			inc, ok := r.(Inconclusive)
			if !ok {
				panic(r)
			}
			if running != nil {
				running.Destroy()
				running = nil
			}
			w, noVerdict = nil, inc.Msg
		}
	}()
	journal(c)
	w = Run(c)
	w.Destroy()
	return w, ""
}

// Report formats the findings of the owned classes (nil if none).
func Report(c *Case, w *World, owned map[string]bool) []string {
	var out []string
	for _, f := range w.Findings {
		if owned[f.Class] {
			out = append(out, f.String())
		}
	}
	return out
}

func set(xs ...string) map[string]bool {
	m := map[string]bool{}
	for _, x := range xs {
		m[x] = true
	}
	return m
}

// Owned maps each E1 property to the finding classes it decides.
var Owned = map[string]map[string]bool{
	"C01": set(FMissing, FWedge, FClosed),
	"C02": set(FExtra, FOpZero),
	"C03": set(FOrder),
	"C04": set(FList, FAddErr, FRmErr, FPanic),
	"C07": set(FList, FAddErr, FRmErr, FPanic, FWedge), // reader-interleaving part: API results against the sequential model
	"C08": set(FName),
	"C09": set(FList, FRmErr, FAddErr, FPanic, FMissing, FExtra),
	"C10": set(FErrors),
	"C11": set(FFrom),
	"C12": set(FMarks, FTables),
	"C19": set(FMissing, FExtra, FName, FOrder, FFrom, FAddErr, FRmErr, FPanic, FWedge),
	"C14": set(FCap, FMissing, FExtra, FOrder, FName, FFrom),
}

// RecordCase updates the stats of prop with an executed case.
func RecordCase(prop string, c *Case, w *World, nontrivial bool) {
	s := StatsFor(prop)
	s.mu.Lock()
	s.Evaluations++
	s.Events += w.Delivered
	for _, e := range w.StepErrs {
		if e == "" {
			s.OpsOK++
		} else {
			s.OpsFailed++
		}
	}
	for k, v := range w.Feat {
		s.Feat[k] += v
	}
	for _, f := range w.Findings {
		s.Classes[f.Class]++
	}
	if w.M != nil {
		for k, v := range w.M.Known {
			s.Known[k] += v
		}
	}
	s.mu.Unlock()
	if nontrivial {
		s.NonTrivial(Skeleton(c, w), c.String())
	}
}

// CheckE1 is the common body of the E1 property tests.
func CheckE1(t *testing.T, prop string, cfg GenCfg, nontrivial func(*Case, *World) bool) {
	cfg.Prop = prop
	owned := Owned[prop]
	rapid.Check(t, func(rt *rapid.T) {
		c := NewGen(rt, cfg).Case()
		w := Exec(c)
		RecordCase(prop, c, w, nontrivial(c, w))
		if !owned[FWedge] {
			// a proven deadlock of the Watcher is C01/C05/C07's finding; here it
			// only means that nothing more can be learnt about this property
			for _, f := range w.Findings {
				if f.Class == FWedge && strings.Contains(f.Detail, "does not return") {
					unownedWedges++
				}
			}
			if unownedWedges >= 3 {
				ExitInconclusive("the Watcher deadlocks (reported by C01/C05/C07); " + prop + " cannot be explored on this tree")
			}
		}
		if rep := Report(c, w, owned); rep != nil {
			small := Shrink(c, owned, 400)
			if w2, _ := ExecQuiet(small); w2 != nil {
				if rep2 := Report(small, w2, owned); rep2 != nil {
					c, rep = small, rep2
				}
			}
			p := SaveReplay(prop, c)
			rt.Fatalf("property %s violated (replay %s)\ncase: %s\n%s", prop, p, c, strings.Join(rep, "\n"))
		}
	})
}

// Replay re-executes a saved case without rapid.
func Replay(t *testing.T, path string) {
	c, err := LoadCase(path)
	if err != nil {
		t.Fatalf("load %s: %v", path, err)
	}
	w := Exec(c)
	RecordCase(c.Prop, c, w, true)
	if rep := Report(c, w, Owned[c.Prop]); rep != nil {
		t.Fatalf("property %s violated (replay %s)\ncase: %s\n%s", c.Prop, path, c, strings.Join(rep, "\n"))
	}
}

// SaveJSON / LoadJSON are small helpers for replay files of the pure-function checks.
func SaveJSON(path string, v any) error {
	b, err := json.MarshalIndent(v, "", " ")
	if err != nil {
		return err
	}
	return os.WriteFile(path, b, 0o644)
}

func LoadJSON(path string, v any) error {
	b, err := os.ReadFile(path)
	if err != nil {
		return err
	}
	return json.Unmarshal(b, v)
}
