package engine

import (
	"errors"
	"fmt"
	"os"
	"path/filepath"
	"runtime"
	"sort"
	"strings"
	"syscall"
	"time"

	"github.com/fsnotify/fsnotify"
	"golang.org/x/sys/unix"
)

// Finding classes. Each property check owns some of them.
const (
	FMissing = "missing" // an expected event was not delivered            (C01)
	FExtra   = "extra"   // a delivered event is not expected               (C02)
	FOrder   = "order"   // same events, different order                    (C03)
	FName    = "name"    // right operation, wrong spelling of the name     (C08)
	FFrom    = "from"    // renamedFrom differs                             (C11)
	FList    = "list"    // WatchList differs from the model                (C04, C09)
	FAddErr  = "adderr"  // Add succeeded/failed differently from the kernel (C04)
	FRmErr   = "rmerr"   // Remove result differs from the model            (C04, C09)
	FPanic   = "panic"   // an API call panicked                            (C04)
	FErrors  = "errors"  // something was received on Errors                (C10)
	FMarks   = "marks"   // kernel marks differ from the model's            (C12)
	FTables  = "tables"  // table sizes differ from len(WatchList)          (C12)
	FWedge   = "wedge"   // reader goroutine cannot make progress           (C01/C05)
	FClosed  = "closed"  // channel closed although Close was not called
	FOpZero  = "opzero"  // delivered event with empty or unknown Op        (C02)
	FCap     = "cap"     // cap(Events) differs from the request            (C14)
)

type Finding struct {
	Class  string
	Step   int
	Detail string
}

func (f Finding) String() string { return fmt.Sprintf("[%s @step %d] %s", f.Class, f.Step, f.Detail) }

// Inconclusive is panicked with when the environment, not the code under
// test, prevents a verdict (resource limits, timeouts without proof).
type Inconclusive struct{ Msg string }

func (i Inconclusive) Error() string { return "INCONCLUSIVE: " + i.Msg }

func inconclusive(format string, a ...interface{}) { panic(Inconclusive{fmt.Sprintf(format, a...)}) }

type lateEv struct {
	ev   Ev
	step int
}

// running is the World of the case being executed (for clean-up when a case
// is abandoned by an Inconclusive panic during shrinking).
var running *World

// Limits that may be tightened by tests.
var (
	SyncTimeout = 30 * time.Second
)

// World is one running case: a temp tree, the Watcher under test, the shadow
// instance and the model.
type World struct {
	Base    string // temp dir
	Root    string // Base/r, the process cwd during the case
	SentDir string // Base/_s, first watch of the Watcher, not in the shadow
	W       *fsnotify.Watcher
	Wfd     int
	Sh      *Shadow
	M       *Model
	R       *RModel // recursive mode (C19)

	held      map[int]int
	sentN     int
	plugged   bool
	removeNow bool     // inside RemoveNow
	prop      string   // property the case is run for
	late      []lateEv // events not delivered by the quiescent point at which they were due
	ovfErrs   int      // ErrEventOverflow values received for the current overflow burst

	pending                []Ev   // expected since last sync
	pendOpt                []bool // parallel to pending: may legitimately be dropped (watch removed while pending)
	opsInSeg               int    // fs ops since last sync
	segBurst               bool   // segment had >1 op or a plug: kernel merging possible
	step                   int
	Findings               []Finding
	Errs                   []error
	Segments               []Segment // kept for samples and reports
	StepErrs               []string  // errno of each executed step ("" = ok)
	Delivered              int
	EvDirs                 map[string]bool // directories of delivered event names
	ReadSizes              []int           // number of notifications decoded per burst (lower bound: ops in plugged segments)
	closed                 bool
	overflowing, lossy     bool
	recurseOld, recurseSet bool
	absorbing              bool
	others                 []*fsnotify.Watcher
	oldCwd                 string
	mounts                 []string
	// feature counters
	Feat map[string]int
}

type Segment struct {
	Burst     bool
	Ops       int
	Expected  []Ev
	Delivered []Ev
}

// Lock serialising inotify instance usage is handled by the caller (see
// Acquire in sem.go).

func NewWorld(c *Case) (w *World, err error) {
	base, err := os.MkdirTemp("", "vf")
	if err != nil {
		return nil, err
	}
	w = &World{Base: base, Root: filepath.Join(base, "r"), SentDir: filepath.Join(base, "_s"),
		held: map[int]int{}, Feat: map[string]int{}}
	defer func() {
		if err != nil {
			w.Destroy()
		}
	}()
	if err = os.Mkdir(w.Root, 0o755); err != nil {
		return
	}
	if err = os.Mkdir(w.SentDir, 0o755); err != nil {
		return
	}
	w.oldCwd, _ = os.Getwd()
	if err = os.Chdir(w.Root); err != nil {
		return
	}
	for _, s := range c.Setup {
		s.P, s.Q = w.subst(s.P), w.subst(s.Q)
		w.fsop(s)
	}
	// inotify instances are a per-user resource shared with whatever else
	// runs on the machine: back off and retry before giving up
	for try := 0; ; try++ {
		w.Sh, err = NewShadow()
		if err == nil || !resourceErr(err) || try > 900 {
			break
		}
		time.Sleep(100 * time.Millisecond)
	}
	if err != nil {
		return
	}
	w.M = NewModel(w.Sh)
	if c.Recurse {
		w.R = NewRModel(w.Sh)
		w.recurseOld = fsnotify.VerifSetRecurse(true)
		w.recurseSet = true
	}
	for try := 0; ; try++ {
		if c.Buf < 0 {
			w.W, err = fsnotify.NewWatcher()
		} else {
			w.W, err = fsnotify.NewBufferedWatcher(uint(c.Buf))
		}
		if err == nil || !resourceErr(err) || try > 900 {
			break
		}
		time.Sleep(100 * time.Millisecond)
	}
	if err != nil {
		return
	}
	want := c.Buf
	if want < 0 {
		want = fsnotify.VerifDefaultBufferSize()
	}
	if cap(w.W.Events) != want {
		w.find(FCap, "cap(Events)=%d, requested %d", cap(w.W.Events), want)
	}
	w.Wfd, _, _ = fsnotify.VerifInotifyState(w.W)
	if err = w.W.Add(w.SentDir); err != nil {
		return
	}
	return w, nil
}

// Plugged reports whether the reader is parked by Plug.
func (w *World) Plugged() bool { return w.plugged }

func (w *World) Destroy() {
	for _, fd := range w.held {
		unix.Close(fd)
	}
	for i := len(w.mounts) - 1; i >= 0; i-- {
		unix.Unmount(w.mounts[i], unix.MNT_DETACH)
	}
	for _, x := range w.others {
		x.Close()
	}
	if w.W != nil {
		done := make(chan struct{})
		go func() { w.W.Close(); close(done) }()
		// drain so that a reader parked in a send can finish
		t := time.NewTimer(10 * time.Second)
	loop:
		for {
			select {
			case _, ok := <-w.W.Events:
				if !ok {
					break loop
				}
			case <-t.C:
				break loop
			}
		}
		select {
		case <-done:
		case <-time.After(5 * time.Second):
		}
		t.Stop()
	}
	if w.Sh != nil {
		w.Sh.Close()
	}
	if w.recurseSet {
		fsnotify.VerifSetRecurse(w.recurseOld)
	}
	if w.oldCwd != "" {
		os.Chdir(w.oldCwd)
	}
	os.RemoveAll(w.Base)
}

// Find records a finding (exported for the lifecycle engine).
func (w *World) Find(class, format string, a ...interface{}) { w.find(class, format, a...) }

func (w *World) find(class, format string, a ...interface{}) {
	w.Findings = append(w.Findings, Finding{class, w.step, fmt.Sprintf(format, a...)})
}

// Failed: a finding ends the case. The order check (C03) carries on past
// events that are merely missing so far: it wants to see whether they turn up
// later, overtaken by the events of later operations.
func (w *World) Failed() bool {
	if w.prop != "C03" {
		return len(w.Findings) > 0
	}
	for _, f := range w.Findings {
		if f.Class != FMissing {
			return true
		}
	}
	return false
}

func errstr(err error) string {
	if err == nil {
		return ""
	}
	var en syscall.Errno
	if errors.As(err, &en) {
		return unix.ErrnoName(en)
	}
	return err.Error()
}

// fsop performs one primitive filesystem operation and returns its error.
func (w *World) fsop(s Step) error {
	p, q := string(s.P), string(s.Q)
	switch s.K {
	case KCreate:
		fd, err := unix.Open(p, unix.O_CREAT|unix.O_EXCL|unix.O_WRONLY|unix.O_CLOEXEC, 0o644)
		if err != nil {
			return err
		}
		return unix.Close(fd)
	case KWrite:
		fd, err := unix.Open(p, unix.O_WRONLY|unix.O_APPEND|unix.O_CLOEXEC, 0)
		if err != nil {
			return err
		}
		n := s.N
		if n < 1 {
			n = 1
		}
		_, err = unix.Write(fd, make([]byte, n))
		unix.Close(fd)
		return err
	case KTrunc:
		return unix.Truncate(p, int64(s.N))
	case KChmod:
		return unix.Chmod(p, uint32(s.N)&0o777)
	case KUnlink:
		return unix.Unlink(p)
	case KMkdir:
		return unix.Mkdir(p, 0o755)
	case KRmdir:
		return unix.Rmdir(p)
	case KRename:
		return unix.Rename(p, q)
	case KLink:
		return unix.Link(p, q)
	case KSymlink:
		return unix.Symlink(p, q)
	case KHold:
		if _, ok := w.held[s.N]; ok {
			return unix.EBUSY
		}
		fd, err := unix.Open(p, unix.O_RDONLY|unix.O_CLOEXEC|unix.O_NONBLOCK, 0)
		if err != nil {
			return err
		}
		w.held[s.N] = fd
		return nil
	case KRelease:
		fd, ok := w.held[s.N]
		if !ok {
			return unix.EBADF
		}
		delete(w.held, s.N)
		return unix.Close(fd)
	case KRmr:
		if p == "" || p == "." || p == "/" || filepath.IsAbs(p) && !strings.HasPrefix(p, w.Base) {
			return unix.EINVAL
		}
		return os.RemoveAll(p)
	case KMount:
		err := unix.Mount("tmpfs", p, "tmpfs", 0, "size=1m")
		if err == nil {
			abs, _ := filepath.Abs(p)
			w.mounts = append(w.mounts, abs)
		}
		return err
	case KUmount:
		err := unix.Unmount(p, 0)
		if err == nil {
			abs, _ := filepath.Abs(p)
			for i, m := range w.mounts {
				if m == abs {
					w.mounts = append(w.mounts[:i], w.mounts[i+1:]...)
					break
				}
			}
		}
		return err
	}
	panic("unknown fs op " + s.K)
}

func IsFsOp(k string) bool {
	switch k {
	case KCreate, KWrite, KTrunc, KChmod, KUnlink, KMkdir, KRmdir, KRename, KLink, KSymlink, KHold, KRelease, KRmr, KMount, KUmount:
		return true
	}
	return false
}

// FsOp runs a filesystem step and feeds what the shadow saw to the model.
func (w *World) FsOp(s Step) error {
	s.P, s.Q = w.subst(s.P), w.subst(s.Q)
	if w.absorbing && len(w.pending) >= cap(w.W.Events)+1 {
		// buffer full and one event in the reader's hands: the reader cannot
		// read any more, so from here on this is an ordinary burst
		w.absorbing = false
		w.segBurst = true
	}
	err := w.fsop(s)
	w.StepErrs = append(w.StepErrs, errstr(err))
	w.opsInSeg++
	if w.opsInSeg > 1 {
		w.segBurst = true
	}
	raws := w.Sh.Drain()
	var evs []Ev
	if w.R != nil {
		evs = w.R.Feed(raws)
	} else {
		evs = w.M.Feed(raws)
	}
	w.pending = append(w.pending, evs...)
	for range evs {
		w.pendOpt = append(w.pendOpt, false)
	}
	w.noteFeatures(s, err, raws, evs)
	if w.absorbing {
		if len(w.pending) > cap(w.W.Events)+1 {
			// more than the buffer can absorb: the reader will park in a send;
			// this becomes an ordinary free-running burst
			w.absorbing = false
			w.segBurst = true
		} else if len(w.pending) <= cap(w.W.Events) {
			w.waitKernelEmpty() // no merging across ops: the reader has taken everything out
		}
		// with capacity+1 events pending the reader is parked in a send and
		// cannot take anything more out (housekeeping records such as the
		// IN_IGNORED of its own inotify_rm_watch may sit behind): no waiting; the
		// queue was empty before this operation, so nothing of it merged with
		// earlier events, and the next operation ends the absorb segment
	}
	return err
}

// noteFeatures counts what the non-triviality rules of the checks refer to.
func (w *World) noteFeatures(s Step, err error, raws []Raw, evs []Ev) {
	if err != nil {
		return
	}
	if len(evs) == 0 {
		w.Feat["silent-ops"]++ // unwatched place, ended watch, or housekeeping only
		if len(raws) > 0 {
			w.Feat["housekeeping-only-ops"]++
		}
		return
	}
	wds := map[int32]bool{}
	for _, r := range raws {
		wds[r.Wd] = true
		if l := len(r.Name); l > 0 && (l%16 == 15 || l%16 == 0 || l%16 == 1) {
			w.Feat["boundary-name-events"]++
		}
		if len(r.Name) > 0 && !isASCII(r.Name) {
			w.Feat["non-ascii-name-events"]++
		}
	}
	if len(wds) >= 2 {
		w.Feat["ops-reported-by-two-watches"]++
	}
	switch s.K {
	case KLink, KRelease, KHold:
		w.Feat["link-or-held-descriptor-ops-with-events"]++
	case KRename:
		if len(evs) >= 3 {
			w.Feat["overwrite-or-multi-watch-renames"]++
		}
		w.Feat["renames-with-events"]++
	}
	if w.plugged && w.opsInSeg >= 2 {
		w.Feat["events-decoded-at-offset>0"] += len(evs)
	}
}

func isASCII(s string) bool {
	for i := 0; i < len(s); i++ {
		if s[i] >= 0x80 {
			return false
		}
	}
	return true
}

// NewWatcherRetry creates a Watcher, backing off while the per-user inotify
// instance limit (shared with everything else on the machine) is exhausted.
func NewWatcherRetry(capacity int) (x *fsnotify.Watcher, err error) {
	for try := 0; ; try++ {
		if capacity < 0 {
			x, err = fsnotify.NewWatcher()
		} else {
			x, err = fsnotify.NewBufferedWatcher(uint(capacity))
		}
		if err == nil || !resourceErr(err) || try > 900 {
			return
		}
		time.Sleep(100 * time.Millisecond)
	}
}

// other Watchers (C14) -------------------------------------------------------

func (w *World) XNew(capacity int) {
	x, err := NewWatcherRetry(capacity)
	if err != nil {
		inconclusive("creating another Watcher: %v", err)
	}
	want := capacity
	if want < 0 {
		want = fsnotify.VerifDefaultBufferSize()
	}
	if cap(x.Events) != want {
		w.find(FCap, "cap(Events)=%d, requested %d", cap(x.Events), want)
	}
	w.others = append(w.others, x)
	go func() { // somebody else's consumer
		for range x.Events {
		}
	}()
	go func() {
		for range x.Errors {
		}
	}()
	w.Feat["other-watchers"]++
}

func (w *World) other(i int) *fsnotify.Watcher {
	if len(w.others) == 0 {
		return nil
	}
	return w.others[i%len(w.others)]
}

// Absorb starts a segment in which nobody receives from Events.
func (w *World) Absorb() {
	w.absorbing = true
	w.Feat["absorb-segments"]++
}

// SyncAbsorb ends an absorb segment: with nobody receiving, the buffered
// channel must hold up to its capacity of events (one more may wait in the
// reader's hands); then everything is received and compared exactly - the
// reader took each notification out of the kernel before the next operation,
// so nothing can have been merged.
func (w *World) SyncAbsorb() {
	w.absorbing = false
	exp := w.pending
	if len(exp) > cap(w.W.Events)+1 {
		// not an absorb case after all; the ordinary protocol applies
		w.segBurst = true
		w.Sync(nil)
		return
	}
	want := len(exp)
	if want > cap(w.W.Events) {
		want = cap(w.W.Events)
	}
	deadline := time.Now().Add(SyncTimeout)
	for len(w.W.Events) < want {
		time.Sleep(50 * time.Microsecond)
		if time.Now().After(deadline) {
			// definitive when nothing is left in the kernel queue and this
			// Watcher's buffer stays short while every reader sleeps in poll
			q1, _ := Fionread(w.Wfd)
			l1 := len(w.W.Events)
			time.Sleep(time.Second)
			q2, _ := Fionread(w.Wfd)
			busy := false
			for _, g := range FsnotifyGoroutines() {
				if strings.Contains(g, "readEvents") && !strings.Contains(g, "IO wait") {
					busy = true
				}
			}
			if q1 == 0 && q2 == 0 && !busy && len(w.W.Events) == l1 && l1 < want {
				w.find(FMissing, "a Watcher with capacity %d and no consumer absorbed %d of %d events; the kernel queue is empty and the reader idle\n  expected:  %v", cap(w.W.Events), l1, len(exp), exp)
				return
			}
			if w.wedge(fmt.Sprintf("buffer of capacity %d holds %d events, %d expected, nobody receiving", cap(w.W.Events), len(w.W.Events), want)) == wedgeRetry {
				inconclusive("absorb segment: buffer short of events, no verdict")
			}
			return
		}
	}
	w.segBurst = false
	w.opsInSeg = 0
	w.Sync(nil)
}

func (w *World) sentinelName() string {
	w.sentN++
	return filepath.Join(w.SentDir, fmt.Sprintf("s%d", w.sentN))
}

func touch(p string) {
	fd, err := unix.Open(p, unix.O_CREAT|unix.O_EXCL|unix.O_WRONLY|unix.O_CLOEXEC, 0o644)
	if err != nil {
		inconclusive("cannot create sentinel %q: %v", p, err)
	}
	unix.Close(fd)
}

// Plug parks the reader goroutine in a channel send: the Events buffer is
// filled one event at a time and one further event is taken out of the kernel.
// Afterwards nothing is read from the kernel until the harness receives.
func (w *World) Plug() {
	if w.plugged {
		return
	}
	w.segBurst = true
	c := cap(w.W.Events)
	if c > 64 {
		// too many plug events; "no consumer" pace instead (batching is then
		// whatever the scheduler gives).
		w.plugged = true
		return
	}
	for i := 0; i < c+1; i++ {
		touch(w.sentinelName())
		w.waitKernelEmpty()
	}
	w.plugged = true
	w.Feat["plug"]++
}

func (w *World) waitKernelEmpty() {
	deadline := time.Now().Add(SyncTimeout)
	for i := 0; ; i++ {
		n, err := Fionread(w.Wfd)
		if err != nil {
			inconclusive("FIONREAD: %v", err)
		}
		if n == 0 {
			return
		}
		if i < 50 {
			runtime.Gosched()
		} else {
			time.Sleep(50 * time.Microsecond)
		}
		if i%1000 == 999 && time.Now().After(deadline) {
			if w.wedge("kernel queue not drained") == wedgeRetry {
				q, _ := Fionread(w.Wfd)
				inconclusive("kernel queue not drained (step %d, absorbing=%v plugged=%v FIONREAD=%d len(Events)=%d cap=%d pending=%d), no verdict", w.step, w.absorbing, w.plugged, q, len(w.W.Events), cap(w.W.Events), len(w.pending))
			}
			return
		}
	}
}

// Poll receives up to n events without blocking (a bursty consumer).
func (w *World) Poll(n int, got *[]Ev) {
	for i := 0; i < n; i++ {
		select {
		case ev, ok := <-w.W.Events:
			if !ok {
				return
			}
			w.take(ev, got, "")
		case err, ok := <-w.W.Errors:
			if ok {
				w.gotError(err)
			}
		default:
			return
		}
	}
}

func (w *World) gotError(err error) {
	w.Errs = append(w.Errs, err)
	if w.overflowing && errors.Is(err, fsnotify.ErrEventOverflow) {
		w.Feat["overflow-errors-received"]++
		w.ovfErrs++
		// the burst is queued while the reader is parked: the kernel puts ONE
		// overflow marker at the tail of its full queue and drops the rest;
		// the few changes made afterwards fit into the room the first read made
		if w.ovfErrs == 4 {
			w.find(FErrors, "ErrEventOverflow received %d times (and counting) for one overflow of the kernel queue", w.ovfErrs)
		}
		return
	}
	w.find(FErrors, "received on Errors: %v", err)
}

// Overflow parks the reader, queues more notifications than the kernel queue
// holds (fs.inotify.max_queued_events), releases the reader and consumes until
// the kernel queue is empty. Oracle (C10): ErrEventOverflow is received on
// Errors (recognisable with errors.Is) and nothing else; what was delivered
// for the burst is not compared (the kernel dropped an unknown part).
func (w *World) Overflow(dir string, n int) {
	w.Plug()
	if c := cap(w.W.Events); c > 64 {
		// the plug cannot park the reader of a large buffer: it keeps taking
		// notifications out of the kernel until the channel is full, and may
		// hold one more read buffer (64 KiB / 16 bytes) in its hands. The burst
		// must overflow the kernel queue on top of that.
		n += c + 4096 + 64
	}
	w.overflowing = true
	w.ovfErrs = 0
	a, b := filepath.Join(dir, "ovf-a"), filepath.Join(dir, "ovf-b")
	for _, p := range []string{a, b} {
		if fd, err := unix.Open(p, unix.O_CREAT|unix.O_WRONLY|unix.O_CLOEXEC, 0o644); err == nil {
			unix.Close(fd)
		}
	}
	// alternating attribute changes: one notification each, never merged
	for i := 0; i < n; i++ {
		if i%2 == 0 {
			unix.Chmod(a, 0o600+uint32(i/2%2)*0o44)
		} else {
			unix.Chmod(b, 0o600+uint32(i/2%2)*0o44)
		}
		if i%64 == 63 {
			w.M.Feed(w.Sh.Drain())
		}
	}
	w.M.Feed(w.Sh.Drain())
	w.M.Overflow = false
	w.pending, w.pendOpt = nil, nil
	var got []Ev
	deadline := time.Now().Add(2 * SyncTimeout)
	recvSome := func(until func() bool) bool {
		for !until() {
			select {
			case ev, ok := <-w.W.Events:
				if !ok {
					w.find(FClosed, "Events closed during overflow handling")
					return false
				}
				w.take(ev, &got, "")
			case err, ok := <-w.W.Errors:
				if ok {
					w.gotError(err)
				}
			case <-time.After(time.Millisecond):
			}
			if w.Failed() {
				return false
			}
			if time.Now().After(deadline) {
				if w.wedge("kernel queue not drained after an overflow burst") == wedgeRetry {
					inconclusive("kernel queue not drained after an overflow burst, no verdict")
				}
				return false
			}
		}
		return true
	}
	// phase 2: let the reader take one buffer-full out of the kernel, so that
	// there is room again, then make changes: the kernel queues them BEHIND the
	// overflow marker, and they must all be delivered
	q0, _ := Fionread(w.Wfd)
	if !recvSome(func() bool { q, _ := Fionread(w.Wfd); return q < q0 || q == 0 }) {
		return
	}
	w.plugged = false
	for i := 0; i < 6; i++ {
		p := P(filepath.Join(dir, fmt.Sprintf("after-ovf-%d-%d", w.sentN, i)))
		w.FsOp(Step{K: KCreate, P: p})
		if i%2 == 0 {
			w.FsOp(Step{K: KWrite, P: p, N: 1})
		}
	}
	w.Feat["ops-queued-behind-the-overflow-marker"] += 9
	// phase 3: consume until the kernel queue is empty
	if !recvSome(func() bool { q, _ := Fionread(w.Wfd); return q == 0 && len(w.W.Events) == 0 }) {
		return
	}
	w.segBurst = true
	// everything still in flight precedes a fresh sentinel; what was queued
	// behind the marker is compared exactly
	w.Sync(got)
	w.overflowing = false
	if w.ovfErrs == 0 {
		w.find(FErrors, "a burst of %d notifications overflowed the kernel queue (limit %d) but ErrEventOverflow was not received on Errors", n, MaxQueuedEvents())
	}
	w.Feat["overflow-bursts"]++
}

// MaxQueuedEvents reads fs.inotify.max_queued_events.
func MaxQueuedEvents() int {
	b, err := os.ReadFile("/proc/sys/fs/inotify/max_queued_events")
	if err != nil {
		return 16384
	}
	n := 0
	fmt.Sscanf(strings.TrimSpace(string(b)), "%d", &n)
	if n <= 0 {
		return 16384
	}
	return n
}

// take classifies one received event; returns true when it is sentinel `s`.
func (w *World) take(ev fsnotify.Event, got *[]Ev, s string) bool {
	if strings.HasPrefix(ev.Name, w.SentDir+"/") {
		return s != "" && ev.Name == s && ev.Has(fsnotify.Create)
	}
	if w.overflowing {
		if b := filepath.Base(ev.Name); b == "ovf-a" || b == "ovf-b" {
			return false // filler of an overflow burst: an unknown part of it was dropped by the kernel
		}
	}
	w.Delivered++
	if w.EvDirs == nil {
		w.EvDirs = map[string]bool{}
	}
	w.EvDirs[filepath.Dir(ev.Name)] = true
	*got = append(*got, Ev{ev.Name, ev.Op, fsnotify.VerifRenamedFrom(ev)})
	return false
}

// Sync creates a sentinel, receives until it arrives and compares what was
// delivered since the last Sync with what the model expects.
func (w *World) Sync(pre []Ev) {
	if w.closed {
		return
	}
	s := w.sentinelName()
	touch(s)
	got := pre
	timer := time.NewTimer(SyncTimeout)
	defer timer.Stop()
	retries := 0
loop:
	for {
		select {
		case ev, ok := <-w.W.Events:
			if !ok {
				w.find(FClosed, "Events closed although Close was never called")
				w.closed = true
				return
			}
			if w.take(ev, &got, s) {
				break loop
			}
		case err, ok := <-w.W.Errors:
			if !ok {
				w.find(FClosed, "Errors closed although Close was never called")
				w.closed = true
				return
			}
			w.gotError(err)
		case <-timer.C:
			if retries < 4 && w.wedge("sentinel not delivered") == wedgeRetry {
				// the reader was waiting for us (we stop receiving while we look),
				// or is merely slow on a loaded machine: keep receiving
				retries++
				timer.Reset(SyncTimeout)
				continue
			}
			if !w.Failed() {
				inconclusive("sentinel not delivered after %d x %v, no verdict", retries+1, SyncTimeout)
			}
			return
		}
	}
	w.plugged = false
	exp, opt := w.pending, w.pendOpt
	w.pending, w.pendOpt = nil, nil
	w.M.Suppressed = nil
	w.M.EndedByFs = nil
	if aligned, ok := alignOptional(exp, opt, got, w.segBurst); ok {
		// delivered == expected with some optional events left out: compare the
		// aligned sequences exactly (old names included)
		exp = aligned
		w.segBurst = false
		// a Create names its old name only if the Rename of the same move was
		// delivered: where that (optional) Rename was left out because its
		// watch had been removed before the reader got to it, no old name is
		// known to the Watcher either
		for i := range exp {
			if exp[i].From != "" && exp[i].Op&fsnotify.Create != 0 {
				if i == 0 || exp[i-1].Name != exp[i].From || exp[i-1].Op&fsnotify.Rename == 0 {
					exp[i].From = ""
				}
			}
		}
	} else {
		exp, got = dropOptional(exp, opt, got)
	}
	seg := Segment{Burst: w.segBurst, Ops: w.opsInSeg, Expected: exp, Delivered: got}
	w.Segments = append(w.Segments, seg)
	if len(w.Segments) > 64 {
		w.Segments = w.Segments[1:]
	}
	w.opsInSeg = 0
	w.segBurst = false
	if w.lossy {
		return
	}
	if w.M.Overflow || (w.R != nil && w.R.Overflow) {
		inconclusive("shadow queue overflowed; burst too large for the exact oracle")
	}
	w.compare(seg)
}

const (
	wedgeFound = iota // a finding was recorded
	wedgeRetry        // nothing wrong seen: the caller should keep receiving
)

// wedge inspects the process instead of guessing why something is late. While
// it looks, the harness is NOT receiving, so a reader parked in a channel send
// is normal and proves nothing; only these states are verdicts: no reader
// goroutine left; everything consumed and every reader asleep in poll; the
// kernel queue non-empty while the only reader sleeps in poll; a reader stuck
// on a lock across two dumps with nobody inside fsnotify able to run.
func (w *World) wedge(what string) int {
	n, _ := Fionread(w.Wfd)
	readers := func() map[string]string {
		m := map[string]string{}
		for _, g := range FsnotifyGoroutines() {
			if strings.Contains(g, "readEvents") {
				if h := goHeader.FindStringSubmatch(g); h != nil {
					m[h[1]] = g
				}
			}
		}
		return m
	}
	state := func(g string) string {
		if h := goHeader.FindStringSubmatch(g); h != nil {
			return h[2]
		}
		return "?"
	}
	r1 := readers()
	detail := fmt.Sprintf("%s after %v: FIONREAD=%d len(Events)=%d cap=%d, %d reader goroutine(s) in the process (%d other Watchers)", what, SyncTimeout, n, len(w.W.Events), cap(w.W.Events), len(r1), len(w.others))
	if len(r1) == 0 {
		w.find(FWedge, "%s; reader gone but channels open", detail)
		return wedgeFound
	}
	idle := 0
	for _, g := range r1 {
		if state(g) == "IO wait" {
			idle++
		}
	}
	if idle == len(r1) && len(w.W.Events) == 0 {
		// confirm: still so a second later, and the queue did not move
		time.Sleep(time.Second)
		n2, _ := Fionread(w.Wfd)
		r2 := readers()
		still := len(r2) == len(r1) && len(w.W.Events) == 0 && n2 == n
		for id, g := range r2 {
			if _, same := r1[id]; !same || state(g) != "IO wait" {
				still = false
			}
		}
		if still && n == 0 {
			w.find(FWedge, "%s; everything consumed and every reader is waiting for the kernel: what the harness waits for was lost", detail)
			return wedgeFound
		}
		if still && n > 0 && len(w.others) == 0 {
			for _, g := range r2 {
				w.find(FWedge, "%s; the reader sleeps although the kernel queue is not empty\n%s", detail, g)
				return wedgeFound
			}
		}
		return wedgeRetry
	}
	// a reader that keeps running in one place: an unbounded loop
	if p := SpinProof(); p != "" {
		w.find(FWedge, "%s; %s", detail, p)
		return wedgeFound
	}
	// a reader stuck on a lock: needs two dumps and nobody runnable inside fsnotify
	if !anyFsnotifyRunnable() {
		time.Sleep(time.Second)
		r2 := readers()
		for id, g := range r2 {
			st := state(g)
			if old, ok := r1[id]; ok && state(old) == st && (st == "sync.Mutex.Lock" || st == "semacquire") && !anyFsnotifyRunnable() {
				w.find(FWedge, "%s; reader blocked on a lock\n%s", detail, g)
				return wedgeFound
			}
		}
	}
	return wedgeRetry
}

// alignOptional decides whether the delivered sequence equals the expected one
// with some *optional* expected events left out, and returns the expected
// events that were matched. Optional are: events whose watch the user removed
// or re-pointed while they were pending (opt), and, in burst segments, every
// event after the first of a run of events equal in (Op, Name) - the kernel may
// have merged them in the Watcher's queue (its merge test ignores the cookie).
func alignOptional(exp []Ev, opt []bool, got []Ev, burst bool) ([]Ev, bool) {
	n, m := len(exp), len(got)
	if m > n {
		return nil, false
	}
	o := make([]bool, n)
	for i := range exp {
		if i < len(opt) && opt[i] {
			o[i] = true
		}
		if burst && i > 0 && exp[i].same(exp[i-1]) {
			o[i] = true
		}
	}
	// can[i][j]: exp[i:] can produce got[j:]
	can := make([][]bool, n+1)
	for i := range can {
		can[i] = make([]bool, m+1)
	}
	can[n][m] = true
	for i := n - 1; i >= 0; i-- {
		for j := m; j >= 0; j-- {
			if j < m && exp[i].same(got[j]) && can[i+1][j+1] {
				can[i][j] = true
			} else if o[i] && can[i+1][j] {
				can[i][j] = true
			}
		}
	}
	if !can[0][0] {
		return nil, false
	}
	var out []Ev
	i, j := 0, 0
	for i < n {
		if j < m && exp[i].same(got[j]) && can[i+1][j+1] {
			out = append(out, exp[i])
			i++
			j++
		} else {
			i++
		}
	}
	return out, true
}

// dropOptional removes expected events marked optional (their watch was
// removed by the user while they were still pending: they may or may not be
// delivered) together with the delivered events that match them.
func dropOptional(exp []Ev, opt []bool, got []Ev) ([]Ev, []Ev) {
	n := 0
	for _, o := range opt {
		if o {
			n++
		}
	}
	if n == 0 {
		return exp, got
	}
	budget := map[string]int{}
	var exp2 []Ev
	for i, e := range exp {
		if i < len(opt) && opt[i] {
			budget[evKey(e)]++
		} else {
			exp2 = append(exp2, e)
		}
	}
	// mandatory events with the same key keep their claim first
	need := map[string]int{}
	for _, e := range exp2 {
		need[evKey(e)]++
	}
	have := map[string]int{}
	for _, g := range got {
		have[evKey(g)]++
	}
	var got2 []Ev
	for i := len(got) - 1; i >= 0; i-- { // drop surplus from the back is as good as any
		g := got[i]
		k := evKey(g)
		if have[k] > need[k] && budget[k] > 0 {
			have[k]--
			budget[k]--
			continue
		}
		got2 = append([]Ev{g}, got2...)
	}
	return exp2, got2
}

// normalizeBurst applies the run-length rule: a maximal run of n identical
// expected events may be delivered as m identical events, 1 <= m <= n
// (the kernel merges identical adjacent notifications in the Watcher's queue
// while the shadow, drained after every op, never merges). The delivered
// sequence is padded to n so that the exact comparison can follow.
func normalizeBurst(exp, got []Ev) []Ev {
	// The kernel's merge test compares watch, mask and name but not the rename
	// cookie, so two adjacent IN_MOVED_TO of one name (two different moves onto
	// it) merge as well, keeping the first one's cookie: runs are therefore
	// identified by (Op, Name) only, and a merged run keeps its leading events.
	out := make([]Ev, 0, len(exp))
	i, j := 0, 0
	for i < len(exp) && j < len(got) {
		if !exp[i].same(got[j]) {
			break
		}
		n, m := 1, 1
		for i+n < len(exp) && exp[i+n].same(exp[i]) {
			n++
		}
		for j+m < len(got) && got[j+m].same(got[j]) {
			m++
		}
		if m > n {
			break
		}
		out = append(out, got[j:j+m]...)
		out = append(out, exp[i+m:i+n]...)
		i += n
		j += m
	}
	return append(out, got[j:]...)
}

func evKey(e Ev) string { return fmt.Sprintf("%d\x00%s", e.Op, e.Name) }

func (w *World) compare(seg Segment) {
	exp, got := seg.Expected, seg.Delivered
	for _, g := range got {
		if g.Op == 0 || g.Op&^(fsnotify.Create|fsnotify.Write|fsnotify.Remove|fsnotify.Rename|fsnotify.Chmod) != 0 {
			w.find(FOpZero, "delivered event with empty or unrequested operation set: %v", g)
		}
	}
	if seg.Burst {
		got = normalizeBurst(exp, got)
	}
	// multiset difference on (Op, Name)
	cnt := map[string]int{}
	for _, e := range exp {
		cnt[evKey(e)]++
	}
	var extra, missing []Ev
	for _, g := range got {
		k := evKey(g)
		if cnt[k] > 0 {
			cnt[k]--
		} else {
			extra = append(extra, g)
		}
	}
	cnt2 := map[string]int{}
	for _, g := range got {
		cnt2[evKey(g)]++
	}
	for _, e := range exp {
		k := evKey(e)
		if cnt2[k] > 0 {
			cnt2[k]--
		} else {
			missing = append(missing, e)
		}
	}
	ctx := func() string {
		return fmt.Sprintf("\n  expected:  %v\n  delivered: %v", seg.Expected, seg.Delivered)
	}
	if len(missing) > 0 {
		w.find(FMissing, "not delivered: %v%s%s", missing, ctx(), w.recursiveDiag())
	}
	if len(extra) > 0 {
		w.find(FExtra, "delivered but not expected: %v%s", extra, ctx())
	}
	// an event that was due before an earlier quiescent point and turns up now
	// has been overtaken by the events of everything done since
	for _, x := range extra {
		for i, m := range w.late {
			if m.ev.Op == x.Op && m.ev.Name == x.Name {
				w.find(FOrder, "%v was due before step %d and is delivered only now, after the events of later operations%s", x, m.step, ctx())
				w.late = append(w.late[:i:i], w.late[i+1:]...)
				break
			}
		}
	}
	for _, m := range missing {
		w.late = append(w.late, lateEv{m, w.step})
	}
	for _, m := range missing {
		for _, x := range extra {
			if m.Op == x.Op && m.Name != x.Name {
				w.find(FName, "event %v delivered under the name %q%s", m, x.Name, ctx())
			}
		}
	}
	// statement-level order check, independent of the model's sequence: a
	// Create that carries an old name must directly follow the Rename of it
	for i, g := range seg.Delivered {
		if g.From != "" && g.Op&fsnotify.Create != 0 {
			if i == 0 || seg.Delivered[i-1].Name != g.From || seg.Delivered[i-1].Op&fsnotify.Rename == 0 {
				w.find(FOrder, "Create %q<-%q is not immediately preceded by the Rename of %q%s", g.Name, g.From, g.From, ctx())
			}
		}
	}
	if len(missing) > 0 || len(extra) > 0 {
		// the sequences differ, but a Create that was both expected and
		// delivered (the same number of times) must still name its old name:
		// pair the occurrences of each (Op, Name) in order
		expFrom, gotFrom := map[string][]string{}, map[string][]string{}
		for _, e := range exp {
			if e.Op&fsnotify.Create != 0 {
				expFrom[evKey(e)] = append(expFrom[evKey(e)], e.From)
			}
		}
		for _, g := range got {
			if g.Op&fsnotify.Create != 0 {
				gotFrom[evKey(g)] = append(gotFrom[evKey(g)], g.From)
			}
		}
		for k, ef := range expFrom {
			gf := gotFrom[k]
			if len(gf) != len(ef) {
				continue
			}
			for i := range ef {
				if ef[i] != gf[i] {
					w.find(FFrom, "Create %s: expected old name %q, delivered %q%s", k, ef[i], gf[i], ctx())
					break
				}
			}
		}
	}
	if len(missing) == 0 && len(extra) == 0 {
		for i := range exp {
			if !exp[i].same(got[i]) {
				w.find(FOrder, "position %d: expected %v, delivered %v%s", i, exp[i], got[i], ctx())
				break
			}
		}
		// renamedFrom, pairing equal (Op,Name) events in order
		for i := range exp {
			if exp[i].same(got[i]) && exp[i].From != got[i].From {
				w.find(FFrom, "position %d: expected %v, delivered %v%s", i, exp[i], got[i], ctx())
				break
			}
		}
	}
}

// recursiveDiag describes, for a recursive-mode case, what the Watcher and the
// kernel hold at the moment an event is found missing (diagnostics only).
func (w *World) recursiveDiag() string {
	if w.R == nil {
		return ""
	}
	var b strings.Builder
	fmt.Fprintf(&b, "\n  WatchList: %q", w.W.WatchList())
	if ms, err := Fdinfo(w.Wfd); err == nil {
		fmt.Fprintf(&b, "\n  kernel marks of the Watcher: %+v", ms)
	}
	if ms, err := Fdinfo(w.Sh.Fd); err == nil {
		fmt.Fprintf(&b, "\n  kernel marks of the shadow:  %+v", ms)
	}
	tr := w.R.Trace
	if len(tr) > 14 {
		tr = tr[len(tr)-14:]
	}
	fmt.Fprintf(&b, "\n  last shadow records: %+v", tr)
	n, _ := Fionread(w.Wfd)
	fmt.Fprintf(&b, "\n  unread bytes in the Watcher's queue: %d", n)
	return b.String()
}

// Subst replaces the AbsRoot placeholder.
func (w *World) Subst(p P) P { return w.subst(p) }

func (w *World) subst(p P) P { return P(strings.ReplaceAll(string(p), AbsRoot, w.Root)) }

// call runs an API call, converting a panic into a finding, and a call that is
// provably blocked for good (goroutine dump) into a wedge finding; a call that
// is merely late ends the run without verdict.
func (w *World) call(what string, f func() error) (err error, panicked bool) {
	type res struct {
		err      error
		panicVal interface{}
		stack    []byte
	}
	done := make(chan res, 1)
	gid := make(chan string, 1)
	go func() {
		gid <- GoID()
		var r res
		defer func() {
			if p := recover(); p != nil {
				r.panicVal = p
				r.stack = make([]byte, 4096)
				r.stack = r.stack[:runtime.Stack(r.stack, false)]
			}
			done <- r
		}()
		r.err = apiCallFrame(f)
	}()
	marker := "gid:" + <-gid
	var r res
	deadline := time.Now().Add(2 * SyncTimeout)
wait:
	for {
		select {
		case r = <-done:
			break wait
		case <-time.After(5 * time.Second):
		}
		if proof := BlockedProof(marker); proof != "" {
			select {
			case r = <-done:
				break wait
			default:
			}
			w.find(FWedge, "%s does not return\n%s", what, proof)
			return nil, true
		}
		if time.Now().After(deadline) {
			inconclusive("%s is late but not provably blocked", what)
		}
	}
	if r.panicVal != nil {
		if inc, ok := r.panicVal.(Inconclusive); ok {
			panic(inc)
		}
		w.find(FPanic, "%s panicked: %v\n%s", what, r.panicVal, r.stack)
		return nil, true
	}
	return r.err, false
}

// apiCallFrame marks API calls made by the engine in goroutine dumps.
//
//go:noinline
func apiCallFrame(f func() error) error { return f() }

func resourceErr(err error) bool {
	return errors.Is(err, unix.ENOSPC) || errors.Is(err, unix.ENOMEM) || errors.Is(err, unix.EMFILE) || errors.Is(err, unix.ENFILE)
}

// MaskOfOps is the documented subscription table (portable operations).
func MaskOfOps(op fsnotify.Op) uint32 {
	var m uint32
	if op&fsnotify.Create != 0 {
		m |= unix.IN_CREATE
	}
	if op&fsnotify.Write != 0 {
		m |= unix.IN_MODIFY
	}
	if op&fsnotify.Remove != 0 {
		m |= unix.IN_DELETE | unix.IN_DELETE_SELF
	}
	if op&fsnotify.Rename != 0 {
		m |= unix.IN_MOVED_FROM | unix.IN_MOVED_TO | unix.IN_MOVE_SELF
	}
	if op&fsnotify.Chmod != 0 {
		m |= unix.IN_ATTRIB
	}
	return m
}

// Add performs Watcher.Add(p) and the model's Add.
func (w *World) Add(p string) { w.AddOps(p, 0) }

// AddOps is Add restricted to a set of operations (0 = the default set, plain
// Add). Adding a watched path again can only widen what is reported: the
// kernel mask is the union of what was asked for so far.
func (w *World) AddOps(p string, ops fsnotify.Op) {
	c := filepath.Clean(p)
	before := map[int]bool{}
	for _, x := range w.M.Live {
		before[x.Swd] = true
	}
	mask := uint32(DefaultMask)
	if ops != 0 {
		mask = MaskOfOps(ops)
		w.Feat["add-with-operation-subset"]++
	}
	// is the object already watched? then the request is added to its mask
	swd, serr := w.Sh.Add(c, mask|unix.IN_MASK_ADD)
	if serr == nil && !before[swd] {
		// new watch: IN_MASK_ADD made no difference
	}
	werr, panicked := w.call(fmt.Sprintf("Add(%q, ops=%s)", p, ops), func() error {
		if ops != 0 {
			return w.W.AddWith(p, fsnotify.VerifWithOps(ops))
		}
		return w.W.Add(p)
	})
	w.StepErrs = append(w.StepErrs, errstr(werr))
	if panicked {
		return
	}
	if resourceErr(serr) || resourceErr(werr) {
		inconclusive("Add(%q): shadow %v, watcher %v", p, serr, werr)
	}
	if (serr == nil) != (werr == nil) {
		w.find(FAddErr, "Add(%q): kernel says %v for %q, Watcher.Add returned %v", p, errstr(serr), c, werr)
		if serr == nil && !before[swd] {
			w.Sh.Rm(swd)
		}
		return
	}
	if serr != nil {
		w.Feat["add-fail"]++
		if !errors.Is(werr, serr) {
			w.Feat["add-fail-other-errno"]++
		}
		return
	}
	listed := w.M.ByPath(c)
	same := w.M.BySwd(swd)
	switch {
	case same != nil && listed == same:
		w.Feat["add-again"]++
	case same != nil && listed == nil:
		w.Feat["add-alias"]++
	case same != nil && listed != nil:
		// c is listed for another file and now names a file that is already
		// watched: the old watch is released, nothing is added.
		w.Feat["add-repoint-onto-watched"]++
		w.M.end(listed)
		w.Sh.Rm(listed.Swd)
	case listed != nil:
		// listed path names a different, unwatched file: move the watch.
		w.Feat["add-repoint"]++
		old := listed.Swd
		w.M.end(listed)
		w.Sh.Rm(old)
		w.M.Live = append(w.M.Live, &MWatch{Path: c, Swd: swd})
	default:
		w.Feat["add-new"]++
		w.M.Live = append(w.M.Live, &MWatch{Path: c, Swd: swd})
		if p != c || filepath.IsAbs(p) {
			w.Feat["add-unclean-or-absolute-spelling"]++
		}
		if a, err := filepath.Abs(c); err == nil {
			if r, err2 := filepath.EvalSymlinks(a); err2 == nil && r != a {
				w.Feat["add-through-symlink"]++
			}
		}
	}
}

// Remove performs Watcher.Remove(p) and the model's Remove.
func (w *World) Remove(p string) {
	c := filepath.Clean(p)
	werr, panicked := w.call(fmt.Sprintf("Remove(%q)", p), func() error { return w.W.Remove(p) })
	w.StepErrs = append(w.StepErrs, errstr(werr))
	if panicked {
		return
	}
	mw := w.M.ByPath(c)
	if mw != nil {
		w.Feat["remove-listed"]++
		if werr != nil {
			w.find(FRmErr, "Remove(%q) of a listed path returned %v", p, werr)
		}
		w.M.end(mw)
		w.Sh.Rm(mw.Swd)
		return
	}
	if w.removeNow && w.M.EndedByFs[c] {
		// the watch ended through the filesystem within this burst; until the
		// Watcher has handled that notification it still finds the watch and
		// asks the kernel (nil, or EINVAL where the kernel dropped it already)
		w.Feat["remove-racing-fs-end-of-watch"]++
		if werr != nil && !errors.Is(werr, fsnotify.ErrNonExistentWatch) && !errors.Is(werr, syscall.EINVAL) {
			w.find(FRmErr, "Remove(%q) of a path whose watch was ended by the filesystem in this burst returned %v", p, werr)
		}
		return
	}
	w.Feat["remove-unlisted"]++
	if !errors.Is(werr, fsnotify.ErrNonExistentWatch) {
		w.find(FRmErr, "Remove(%q) of an unlisted path returned %v, want ErrNonExistentWatch", p, werr)
	}
}

// RAdd adds a recursive watch on root.
func (w *World) RAdd(root string) {
	c := filepath.Clean(root)
	werr, panicked := w.call(fmt.Sprintf("Add(%q)", root+"/..."), func() error { return w.W.Add(root + "/...") })
	w.StepErrs = append(w.StepErrs, errstr(werr))
	if panicked {
		return
	}
	fi, serr := os.Stat(c)
	ok := serr == nil && fi.IsDir()
	if ok != (werr == nil) {
		w.find(FAddErr, "Add(%q): directory exists=%v, Watcher.Add returned %v", root+"/...", ok, werr)
		return
	}
	if !ok {
		return
	}
	if err := w.R.AddTree(c); err != nil {
		inconclusive("shadow tree add: %v", err)
	}
	w.Feat["recursive-roots"]++
}

// RRemove removes the recursive watch on root.
func (w *World) RRemove(root string) {
	c := filepath.Clean(root)
	werr, panicked := w.call(fmt.Sprintf("Remove(%q)", root+"/..."), func() error { return w.W.Remove(root + "/...") })
	w.StepErrs = append(w.StepErrs, errstr(werr))
	if panicked {
		return
	}
	listed := false
	for _, d := range w.R.Dirs {
		if d.Root == c && d.Path == c {
			listed = true
		}
	}
	if listed {
		if werr != nil {
			w.find(FRmErr, "Remove(%q) of a recursive root returned %v", root+"/...", werr)
		}
		w.R.RemoveTree(c)
		w.Feat["recursive-root-removed"]++
		return
	}
	if !errors.Is(werr, fsnotify.ErrNonExistentWatch) {
		w.find(FRmErr, "Remove(%q) of an unlisted root returned %v", root+"/...", werr)
	}
}

// RemoveNow calls Remove while events may still be pending (inside a burst).
// Events of that watch which are still undelivered become optional: the
// Watcher may drop them; nothing that happens under the path afterwards may be
// reported.
func (w *World) RemoveNow(p string) {
	c := filepath.Clean(p)
	if w.M.ByPath(c) != nil || w.M.EndedByFs[c] { // only a Remove that really ends a watch can discard what is pending for it
		for i, e := range w.pending {
			if e.Name == c || strings.HasPrefix(e.Name, c+"/") {
				w.pendOpt[i] = true
			}
		}
	}
	// a Remove of a watched entry that the model left out because this
	// directory was listed may be reported after all (the Watcher decides when
	// it handles the notification, and by then the directory is not listed)
	for _, sp := range w.M.Suppressed {
		if sp.Parent == c {
			w.pending = append(w.pending, sp.Ev)
			w.pendOpt = append(w.pendOpt, true)
		}
	}
	w.Feat["remove-inside-burst"]++
	w.removeNow = true
	w.Remove(p)
	w.removeNow = false
}

// AddNow calls Add while events may still be pending. If the path is listed
// and now names another file the Watcher re-points its watch at once, and what
// is still undelivered for the old file may be dropped: pending events under
// that path become optional.
func (w *World) AddNow(p string) {
	c := filepath.Clean(p)
	for i, e := range w.pending {
		if e.Name == c || strings.HasPrefix(e.Name, c+"/") {
			w.pendOpt[i] = true
		}
	}
	w.Feat["add-inside-burst"]++
	w.Add(p)
}

// Recv receives exactly n events (a consumer that takes a few events and then
// stalls), but never more than the model expects to be pending, so that it
// cannot block for good.
func (w *World) Recv(n int, got *[]Ev) {
	mandatory := 0
	for i := range w.pending {
		if !w.pendOpt[i] {
			mandatory++
		}
	}
	// events already received in this segment count against what is pending;
	// kernel merging may have reduced the number further: stay conservative
	avail := mandatory - len(*got)
	if w.segBurst {
		avail = 0
		seen := map[string]bool{}
		for i, e := range w.pending {
			if !w.pendOpt[i] && !seen[evKey(e)] {
				seen[evKey(e)] = true
				avail++
			}
		}
		avail -= len(*got)
	}
	if n > avail {
		n = avail
	}
	timer := time.NewTimer(SyncTimeout)
	defer timer.Stop()
	for i := 0; i < n; i++ {
		select {
		case ev, ok := <-w.W.Events:
			if !ok {
				return
			}
			if strings.HasPrefix(ev.Name, w.SentDir+"/") {
				i--
				continue
			}
			w.take(ev, got, "")
		case err, ok := <-w.W.Errors:
			if ok {
				w.gotError(err)
			}
			i--
		case <-timer.C:
			if w.wedge(fmt.Sprintf("consumer waiting for event %d of %d that the model says are pending", i+1, n)) == wedgeRetry {
				inconclusive("partial receive: event %d of %d late, no verdict", i+1, n)
			}
			return
		}
	}
	if n > 0 {
		w.Feat["blocking-partial-receives"]++
		w.plugged = false
		w.waitReaderSettled()
	}
}

// waitReaderSettled waits (bounded, best effort) until the reader goroutine
// has gone as far as it can after a partial receive: parked in the next send
// or asleep waiting for the kernel. What follows in the case then meets the
// reader in a known place rather than racing it for the lock.
func (w *World) waitReaderSettled() {
	deadline := time.Now().Add(30 * time.Millisecond)
	for {
		settled := false
		for _, g := range FsnotifyGoroutines() {
			if !strings.Contains(g, "readEvents") {
				continue
			}
			if h := goHeader.FindStringSubmatch(g); h != nil {
				switch {
				case (h[2] == "select" || h[2] == "chan send") && strings.Contains(g, "sendEvent"):
					settled = true
				case h[2] == "IO wait":
					settled = true
				}
			}
		}
		if settled || time.Now().After(deadline) {
			return
		}
		runtime.Gosched()
	}
}

// List compares WatchList with the model.
func (w *World) List() {
	var got []string
	_, panicked := w.call("WatchList()", func() error {
		for _, p := range w.W.WatchList() {
			if p != w.SentDir {
				got = append(got, p)
			}
		}
		return nil
	})
	if panicked {
		return
	}
	want := w.M.Paths()
	sort.Strings(got)
	sort.Strings(want)
	if strings.Join(got, "\x00") != strings.Join(want, "\x00") || len(got) != len(want) {
		w.find(FList, "WatchList()=%q, model=%q", got, want)
	}
}

// Fdchk compares the kernel's own account of the Watcher's marks with the
// shadow's (the model releases watches by inotify_rm_watch on the shadow, so
// the shadow's marks are the model's kernel state).
func (w *World) Fdchk() {
	wm, err1 := Fdinfo(w.Wfd)
	sm, err2 := Fdinfo(w.Sh.Fd)
	if err1 != nil || err2 != nil {
		inconclusive("fdinfo: %v %v", err1, err2)
	}
	// the sentinel directory is the Watcher's first watch: wd 1
	a, b := MarkKeys(wm, 1), MarkKeys(sm, -1)
	if strings.Join(a, ";") != strings.Join(b, ";") {
		w.find(FMarks, "kernel marks of the Watcher %v differ from the model's %v (model list %q)", a, b, w.M.Paths())
	}
	var nl int
	if _, p := w.call("WatchList()", func() error { nl = len(w.W.WatchList()); return nil }); p {
		return
	}
	_, nwd, npath := fsnotify.VerifInotifyState(w.W)
	if nwd != nl || npath != nl || len(wm) != nl {
		w.find(FTables, "len(WatchList)=%d, wd table=%d, path table=%d, kernel marks=%d", nl, nwd, npath, len(wm))
	}
	if len(b) != len(w.M.Live) {
		// harness self-check: never blame the code for a broken model
		inconclusive("model has %d live watches, shadow has %d marks", len(w.M.Live), len(b))
	}
}

// Run executes a case.
func Run(c *Case) (w *World) {
	w, err := NewWorld(c)
	if err != nil {
		if resourceErr(err) {
			inconclusive("setting up the case: %v", err)
		}
		panic(fmt.Sprintf("setting up the case: %v", err))
	}
	running = w
	w.prop = c.Prop
	var polled []Ev
	synced := true
	for i, s := range c.Steps {
		w.step = i
		s.P, s.Q = w.subst(s.P), w.subst(s.Q)
		if w.Failed() || w.closed {
			break
		}
		switch {
		case IsFsOp(s.K):
			if c.Recurse && s.K == KRename {
				// renaming onto an existing entry (overwrite) is not among the
				// histories C19 quantifies over: the step is skipped
				var st unix.Stat_t
				if unix.Lstat(string(s.Q), &st) == nil {
					w.StepErrs = append(w.StepErrs, "EEXIST-skipped")
					w.Feat["recursive-overwrite-renames-skipped"]++
					break
				}
			}
			if c.Recurse && (s.K == KMkdir || s.K == KRename && s.N != 1 || s.K == KRmdir) {
				// recursive mode quantifies over directories created/moved one
				// level at a time, each followed by delivery of its events
				if !synced {
					w.Sync(polled)
					polled = nil
					if w.Failed() {
						break
					}
				}
				w.FsOp(s)
				w.Sync(nil)
				synced = true
				break
			}
			w.FsOp(s)
			synced = false
		case s.K == KSync:
			w.StepErrs = append(w.StepErrs, "")
			if w.absorbing {
				w.SyncAbsorb()
			} else {
				w.Sync(polled)
			}
			polled = nil
			synced = true
		case s.K == KXNew:
			w.StepErrs = append(w.StepErrs, "")
			w.XNew(s.N)
		case s.K == KXAdd || s.K == KXRemove || s.K == KXClose:
			var err error
			if x := w.other(s.N); x != nil {
				switch s.K {
				case KXAdd:
					err = x.Add(string(s.P))
				case KXRemove:
					err = x.Remove(string(s.P))
				default:
					err = x.Close()
				}
			}
			w.StepErrs = append(w.StepErrs, errstr(err))
		case s.K == KPlug:
			w.StepErrs = append(w.StepErrs, "")
			if !synced {
				w.Sync(polled)
				polled = nil
				synced = true
				if w.Failed() {
					break
				}
			}
			w.Plug()
			synced = false
		case s.K == KRRemoveNow:
			// what is still undelivered for that tree may be dropped
			root := filepath.Clean(string(s.P))
			for i, e := range w.pending {
				if under(e.Name, root) || under(e.From, root) {
					w.pendOpt[i] = true
				}
			}
			w.Feat["recursive-remove-inside-burst"]++
			w.RRemove(string(s.P))
		case s.K == KRAddNow:
			w.Feat["recursive-add-inside-burst"]++
			w.RAdd(string(s.P))
		case s.K == KRemoveNow:
			w.RemoveNow(string(s.P))
		case s.K == KAddNow:
			w.AddNow(string(s.P))
		case s.K == KPause:
			w.StepErrs = append(w.StepErrs, "")
			if !synced {
				time.Sleep(time.Duration(s.N) * time.Millisecond)
				w.Feat["consumer-pauses-with-events-pending"]++
			}
		case s.K == KRecv:
			w.StepErrs = append(w.StepErrs, "")
			if !w.absorbing {
				w.Recv(s.N, &polled)
			}
		case s.K == KPoll:
			w.StepErrs = append(w.StepErrs, "")
			if !w.plugged && !w.absorbing {
				w.Poll(s.N, &polled)
			}
		default: // API calls and checks happen at quiescent points only
			if !synced {
				w.Sync(polled)
				polled = nil
				synced = true
				if w.Failed() {
					break
				}
			}
			switch s.K {
			case KOverflow:
				w.StepErrs = append(w.StepErrs, "")
				w.Overflow(string(s.P), s.N)
			case KAbsorb:
				w.StepErrs = append(w.StepErrs, "")
				if cap(w.W.Events) > 0 {
					w.Absorb()
				}
			case KRAdd:
				w.RAdd(string(s.P))
			case KRRemove:
				w.RRemove(string(s.P))
			case KAdd:
				w.AddOps(string(s.P), fsnotify.Op(s.N))
			case KRemove:
				w.Remove(string(s.P))
			case KList:
				w.StepErrs = append(w.StepErrs, "")
				w.List()
			case KFdchk:
				w.StepErrs = append(w.StepErrs, "")
				w.Fdchk()
			default:
				panic("unknown step " + s.K)
			}
		}
	}
	if !w.Failed() && !synced && !w.closed {
		w.step = len(c.Steps)
		if w.absorbing {
			w.SyncAbsorb()
		} else {
			w.Sync(polled)
		}
	}
	return w
}
