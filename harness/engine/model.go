package engine

import (
	"fmt"
	"path/filepath"

	"github.com/fsnotify/fsnotify"
	"golang.org/x/sys/unix"
)

// Ev is an event as compared by the oracles.
type Ev struct {
	Name string
	Op   fsnotify.Op
	From string
}

func (e Ev) String() string {
	if e.From != "" {
		return fmt.Sprintf("%s %q<-%q", e.Op, e.Name, e.From)
	}
	return fmt.Sprintf("%s %q", e.Op, e.Name)
}

func (e Ev) same(o Ev) bool { return e.Name == o.Name && e.Op == o.Op }

// MWatch is one live watch of the reference model.
type MWatch struct {
	Path string // filepath.Clean of the first spelling added
	Swd  int    // shadow watch descriptor == kernel identity of the watched inode
	// ParentReported: a live watch listed under Dir(Path) has, during this
	// watch's life, reported IN_DELETE for Base(Path).
	ParentReported bool
}

// Model is the sequential reference model of one Watcher (non-recursive mode).
type Model struct {
	Sh      *Shadow
	Live    []*MWatch
	cookies map[uint32]string
	// Trace of raw shadow records, for failure reports.
	Trace []Raw
	// Overflow is set when the shadow itself overflowed (the case is then
	// outside the exact oracle).
	Overflow bool
	// counters for non-triviality rules
	NDoubleReport int // DELETE_SELF suppressed because the parent reported
	NMoveSelf     int
	NDeleteSelf   int
	NIgnored      int
	NCookiePairs  int
	NUnmatchedOut int
	// Known counts occurrences of recorded (not repaired) defects, by signature.
	Known map[string]int
	// Suppressed: Remove events of watched paths that the model left out
	// because the parent directory was listed, since the last quiescent point.
	// If that parent's watch is removed while they are still undelivered, the
	// Watcher (which decides when it handles the notification) may report them.
	Suppressed []SuppressedEv
	// EndedByFs: paths whose watch ended through the filesystem since the
	// last quiescent point; the Watcher learns of it only when it handles
	// the notification.
	EndedByFs map[string]bool
}

type SuppressedEv struct {
	Ev     Ev
	Parent string
}

// SigF5 is the signature of known finding F5 (see known_findings.json).
const SigF5 = "delete-self-swallowed: Dir(path) is listed but that parent did not report the removal"

func NewModel(sh *Shadow) *Model {
	return &Model{Sh: sh, cookies: map[uint32]string{}, Known: map[string]int{}}
}

func (m *Model) BySwd(swd int) *MWatch {
	for _, w := range m.Live {
		if w.Swd == swd {
			return w
		}
	}
	return nil
}

func (m *Model) ByPath(p string) *MWatch {
	for _, w := range m.Live {
		if w.Path == p {
			return w
		}
	}
	return nil
}

func (m *Model) endedByFs(w *MWatch) {
	if m.EndedByFs == nil {
		m.EndedByFs = map[string]bool{}
	}
	m.EndedByFs[w.Path] = true
}

func (m *Model) end(w *MWatch) {
	for i, x := range m.Live {
		if x == w {
			m.Live = append(m.Live[:i:i], m.Live[i+1:]...)
			return
		}
	}
}

func (m *Model) Paths() []string {
	out := make([]string, 0, len(m.Live))
	for _, w := range m.Live {
		out = append(out, w.Path)
	}
	return out
}

// OpOf is the documented translation table, written from the property text.
func OpOf(mask uint32) fsnotify.Op {
	var op fsnotify.Op
	if mask&(unix.IN_CREATE|unix.IN_MOVED_TO) != 0 {
		op |= fsnotify.Create
	}
	if mask&(unix.IN_DELETE|unix.IN_DELETE_SELF) != 0 {
		op |= fsnotify.Remove
	}
	if mask&unix.IN_MODIFY != 0 {
		op |= fsnotify.Write
	}
	if mask&(unix.IN_MOVED_FROM|unix.IN_MOVE_SELF) != 0 {
		op |= fsnotify.Rename
	}
	if mask&unix.IN_ATTRIB != 0 {
		op |= fsnotify.Chmod
	}
	return op
}

// Feed turns shadow records into the events the Watcher is documented to
// deliver, updating watch lifetimes on the way.
func (m *Model) Feed(raws []Raw) []Ev {
	var out []Ev
	for i, r := range raws {
		m.Trace = append(m.Trace, r)
		if r.Mask&unix.IN_Q_OVERFLOW != 0 {
			m.Overflow = true
			continue
		}
		w := m.BySwd(int(r.Wd))
		if w == nil {
			continue
		}
		if r.Mask&(unix.IN_IGNORED|unix.IN_UNMOUNT) != 0 {
			m.NIgnored++
			m.endedByFs(w)
			m.end(w)
			continue
		}
		name := w.Path
		if r.Name != "" {
			name = w.Path + "/" + r.Name
		}
		if r.Mask&unix.IN_DELETE != 0 && r.Name != "" {
			// a directory watch reports the removal of an entry: remember it
			// for watches listed under exactly that spelling.
			for _, c := range m.Live {
				if c != w && filepath.Dir(c.Path) == w.Path && filepath.Base(c.Path) == r.Name {
					c.ParentReported = true
				}
			}
		}
		if r.Mask&unix.IN_DELETE_SELF != 0 {
			m.NDeleteSelf++
			m.endedByFs(w)
			m.end(w) // the kernel drops the watch by itself
			// "reporting Remove unless the watched parent directory already
			// did": for a file the parent's IN_DELETE comes first, for a
			// directory it follows within the same syscall.
			parent := m.ByPath(filepath.Dir(w.Path))
			reports := w.ParentReported
			if parent != nil && !reports {
				for _, n := range raws[i+1:] {
					if int(n.Wd) == parent.Swd && n.Mask&unix.IN_DELETE != 0 && n.Name == filepath.Base(w.Path) {
						reports = true
					}
				}
			}
			if parent != nil {
				m.Suppressed = append(m.Suppressed, SuppressedEv{Ev{Name: name, Op: OpOf(r.Mask)}, parent.Path})
			}
			if parent != nil && reports {
				m.NDoubleReport++
				continue
			}
			if parent != nil && IsKnown(SigF5) {
				// recorded defect: the implementation swallows the event whenever
				// the parent's spelling is listed. Adopt that for this signature
				// only, and count it.
				m.Known[SigF5]++
				continue
			}
		}
		if r.Mask&unix.IN_MOVE_SELF != 0 {
			m.NMoveSelf++
			m.endedByFs(w)
			m.end(w)
			m.Sh.Rm(w.Swd) // "that watch reports nothing further"
		}
		op := OpOf(r.Mask)
		if op == 0 {
			continue
		}
		e := Ev{Name: name, Op: op}
		if r.Cookie != 0 {
			if r.Mask&unix.IN_MOVED_FROM != 0 {
				m.cookies[r.Cookie] = name
				m.NUnmatchedOut++
			} else if r.Mask&unix.IN_MOVED_TO != 0 {
				if old, ok := m.cookies[r.Cookie]; ok {
					e.From = old
					delete(m.cookies, r.Cookie)
					m.NCookiePairs++
					m.NUnmatchedOut--
				}
			}
		}
		out = append(out, e)
	}
	return out
}
