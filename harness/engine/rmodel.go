package engine

import (
	"io/fs"
	"path/filepath"
	"strings"

	"github.com/fsnotify/fsnotify"
	"golang.org/x/sys/unix"
)

// RModel is the reference model of the recursive watch mode (C19). The
// harness keeps a shadow watch on every covered directory; the shadow watch
// descriptor identifies the directory whatever its current name, and the model
// keeps the true current path of each.
type RModel struct {
	Sh      *Shadow
	Dirs    map[int]*RDir
	cookies map[uint32]string
	Trace   []Raw
	// counters
	NInnerRename int
	NNewDirs     int
	NRootRemoved int
	Overflow     bool
}

type RDir struct {
	Path string // true current path, spelled from the root the user added
	Root string // cleaned root spelling
	Swd  int
}

func NewRModel(sh *Shadow) *RModel {
	return &RModel{Sh: sh, Dirs: map[int]*RDir{}, cookies: map[uint32]string{}}
}

// AddTree covers root and every directory below it.
func (m *RModel) AddTree(root string) error {
	return filepath.WalkDir(root, func(p string, d fs.DirEntry, err error) error {
		if err != nil {
			return err
		}
		if !d.IsDir() {
			return nil
		}
		swd, err := m.Sh.Add(p, DefaultMask)
		if err != nil {
			return err
		}
		if _, ok := m.Dirs[swd]; !ok {
			m.Dirs[swd] = &RDir{Path: p, Root: root, Swd: swd}
		}
		return nil
	})
}

// RemoveTree drops every directory covered through root.
func (m *RModel) RemoveTree(root string) bool {
	found := false
	for swd, d := range m.Dirs {
		if d.Root == root {
			found = true
			m.Sh.Rm(swd)
			delete(m.Dirs, swd)
		}
	}
	return found
}

func under(p, dir string) bool { return p == dir || strings.HasPrefix(p, dir+"/") }

func (m *RModel) Feed(raws []Raw) []Ev {
	var out []Ev
	for _, r := range raws {
		m.Trace = append(m.Trace, r)
		if r.Mask&unix.IN_Q_OVERFLOW != 0 {
			m.Overflow = true
			continue
		}
		d := m.Dirs[int(r.Wd)]
		if d == nil {
			continue
		}
		if r.Mask&(unix.IN_IGNORED|unix.IN_UNMOUNT) != 0 {
			delete(m.Dirs, d.Swd)
			continue
		}
		name := d.Path
		if r.Name != "" {
			name = d.Path + "/" + r.Name
		}
		isRoot := d.Path == d.Root
		if r.Mask&unix.IN_DELETE_SELF != 0 {
			delete(m.Dirs, d.Swd)
			if !isRoot {
				continue // the covered parent reports the removal
			}
			m.NRootRemoved++
		}
		if r.Mask&unix.IN_MOVE_SELF != 0 {
			if !isRoot {
				continue // reported by the parent as Rename + Create
			}
			// a moved root is outside the quantifier; the watch stays as it is
			continue
		}
		op := OpOf(r.Mask)
		if op == 0 {
			continue
		}
		e := Ev{Name: name, Op: op}
		isDir := r.Mask&unix.IN_ISDIR != 0
		if r.Cookie != 0 {
			if r.Mask&unix.IN_MOVED_FROM != 0 {
				m.cookies[r.Cookie] = name
			} else if r.Mask&unix.IN_MOVED_TO != 0 {
				if old, ok := m.cookies[r.Cookie]; ok {
					e.From = old
					delete(m.cookies, r.Cookie)
					if isDir {
						// the directory and its descendants are now at the new place
						m.NInnerRename++
						for _, x := range m.Dirs {
							if under(x.Path, old) {
								x.Path = name + x.Path[len(old):]
							}
						}
					}
				}
			}
		}
		if isDir && op&fsnotify.Create != 0 && e.From == "" {
			// a new directory is covered from its own Create on
			if swd, err := m.Sh.Add(name, DefaultMask); err == nil {
				if _, ok := m.Dirs[swd]; !ok {
					m.Dirs[swd] = &RDir{Path: name, Root: d.Root, Swd: swd}
					m.NNewDirs++
				}
			}
		}
		out = append(out, e)
	}
	return out
}
