package engine

import (
	"path/filepath"
	"sort"
	"strings"

	"pgregory.net/rapid"
)

// GenC19 draws a recursive-watch case: trees whose sibling names share string
// prefixes, directories created one level at a time (each followed by a sync),
// inner renames within a tree, file operations at every depth, Remove of one
// of several roots. Excluded, as in the property: mkdir -p bursts, moves
// across a tree boundary, renames/removal of a root.
func GenC19(t *rapid.T) *Case {
	c := &Case{Prop: "C19", Recurse: true}
	c.Buf = rapid.SampledFrom([]int{-1, 0, 1, 64, 4096}).Draw(t, "buf")
	names := []string{"sub", "sub2", "a", "ab", "dir1", "dir10", "x", "x-y"}
	fnames := []string{"f", "f2", "sub", "a", "g.txt"}
	roots := []string{"r1", "r10", "q"}
	kind := map[string]byte{}
	var steps []Step
	dirsOf := func(root string) []string {
		var out []string
		for p, k := range kind {
			if k == 'd' && under(p, root) {
				out = append(out, p)
			}
		}
		sort.Strings(out)
		return out
	}
	// initial trees
	for _, r := range roots {
		c.Setup = append(c.Setup, Step{K: KMkdir, P: P(r)})
		kind[r] = 'd'
		n := rapid.IntRange(0, 6).Draw(t, "ninit")
		for i := 0; i < n; i++ {
			parent := rapid.SampledFrom(dirsOf(r)).Draw(t, "iparent")
			if strings.Count(parent, "/") >= 3 {
				continue
			}
			if rapid.IntRange(0, 3).Draw(t, "ikind") > 0 {
				p := parent + "/" + rapid.SampledFrom(names).Draw(t, "iname")
				if _, ok := kind[p]; !ok {
					kind[p] = 'd'
					c.Setup = append(c.Setup, Step{K: KMkdir, P: P(p)})
				}
			} else {
				p := parent + "/" + rapid.SampledFrom(fnames).Draw(t, "ifname")
				if _, ok := kind[p]; !ok {
					kind[p] = 'f'
					c.Setup = append(c.Setup, Step{K: KCreate, P: P(p)})
				}
			}
		}
	}
	nroots := rapid.IntRange(1, 3).Draw(t, "nroots")
	perm := rapid.Permutation(roots).Draw(t, "rootorder")
	added := perm[:nroots]
	for _, r := range added {
		steps = append(steps, Step{K: KRAdd, P: P(r)})
	}
	live := append([]string(nil), added...)
	allDirs := func() []string {
		var out []string
		for _, r := range roots {
			out = append(out, dirsOf(r)...)
		}
		return out
	}
	files := func() []string {
		var out []string
		for p, k := range kind {
			if k == 'f' {
				out = append(out, p)
			}
		}
		sort.Strings(out)
		return out
	}
	rootOf := func(p string) string { return strings.SplitN(p, "/", 2)[0] }
	nops := rapid.IntRange(4, 30).Draw(t, "nops")
	// some cases are long and move-heavy: the rename bookkeeping (cookie ring,
	// path rewriting) is exercised well past its first ten moves
	moveHeavy := Pct(t, "moveheavy", 15)
	if moveHeavy {
		nops = rapid.IntRange(30, 70).Draw(t, "nops-long")
	}
	// inner directory renames inside bursts (no delivery in between), possibly
	// the same directory twice in a row
	burstMv := Pct(t, "burstmv", 35)
	fresh := 0
	inBurst := 0
	plugged := false
	sync := func() {
		steps = append(steps, Step{K: KSync})
		inBurst = 0
		plugged = false
	}
	for i := 0; i < nops; i++ {
		k := rapid.IntRange(0, 99).Draw(t, "opkind")
		if moveHeavy && k >= 34 && k < 80 {
			k = 14 + k%12 // mostly inner directory renames
			if rapid.Bool().Draw(t, "filemove") {
				k = 99 // or file moves
			}
		}
		switch {
		case k < 14: // mkdir one level, then its Create must be delivered
			parent := rapid.SampledFrom(allDirs()).Draw(t, "mkparent")
			p := parent + "/" + rapid.SampledFrom(names).Draw(t, "mkname")
			if inBurst > 0 {
				sync()
			}
			steps = append(steps, Step{K: KMkdir, P: P(p)})
			if _, ok := kind[p]; !ok && strings.Count(p, "/") < 6 {
				kind[p] = 'd'
			}
			sync()
		case k < 26: // rename an inner directory within its tree
			var inner []string
			for _, d := range allDirs() {
				if strings.Contains(d, "/") {
					inner = append(inner, d)
				}
			}
			if len(inner) == 0 {
				continue
			}
			src := rapid.SampledFrom(inner).Draw(t, "mvsrc")
			var parents []string
			for _, d := range dirsOf(rootOf(src)) {
				if !under(d, src) {
					parents = append(parents, d)
				}
			}
			dst := rapid.SampledFrom(parents).Draw(t, "mvparent") + "/" + rapid.SampledFrom(names).Draw(t, "mvname")
			if _, ok := kind[dst]; ok || dst == src {
				continue
			}
			mv := func(src, dst string, n int) {
				steps = append(steps, Step{K: KRename, P: P(src), Q: P(dst), N: n})
				moved := map[string]byte{}
				for p, kk := range kind {
					if under(p, src) {
						moved[dst+p[len(src):]] = kk
						delete(kind, p)
					}
				}
				for p, kk := range moved {
					kind[p] = kk
				}
			}
			if burstMv {
				if inBurst == 0 && rapid.IntRange(0, 2).Draw(t, "mvplug") == 0 {
					steps = append(steps, Step{K: KPlug})
				}
				mv(src, dst, 1)
				inBurst++
				if rapid.IntRange(0, 2).Draw(t, "mvagain") == 0 {
					fresh++
					dst2 := filepath.Dir(dst) + "/" + rapid.SampledFrom(names).Draw(t, "mvname2")
					if _, ok := kind[dst2]; !ok && dst2 != dst {
						mv(dst, dst2, 1)
						dst = dst2
					}
				}
				// something happens inside the directory at its final place
				f := dst + "/" + rapid.SampledFrom(fnames).Draw(t, "mvfile")
				if _, ok := kind[f]; !ok {
					steps = append(steps, Step{K: KCreate, P: P(f)})
					kind[f] = 'f'
				}
				if rapid.IntRange(0, 1).Draw(t, "mvend") == 0 {
					sync()
				}
				continue
			}
			if inBurst > 0 {
				sync()
			}
			mv(src, dst, 0)
			sync()
		case k < 30: // rmdir of an inner directory (works when empty)
			var inner []string
			for _, d := range allDirs() {
				if strings.Contains(d, "/") {
					inner = append(inner, d)
				}
			}
			if len(inner) == 0 {
				continue
			}
			p := rapid.SampledFrom(inner).Draw(t, "rmdir")
			if inBurst > 0 {
				sync()
			}
			steps = append(steps, Step{K: KRmdir, P: P(p)})
			empty := true
			for q := range kind {
				if q != p && under(q, p) {
					empty = false
				}
			}
			if empty {
				delete(kind, p)
			}
			sync()
		case k < 36 && k >= 34 && len(live) > 0: // a root removed and added again with events of its tree still pending
			if inBurst > 0 {
				sync()
			}
			r := rapid.SampledFrom(live).Draw(t, "rereadd")
			ds := dirsOf(r)
			d := rapid.SampledFrom(ds).Draw(t, "rereadd-dir")
			fresh++
			base := d + "/re" + string(rune('a'+fresh%26))
			steps = append(steps, Step{K: KPlug}, Step{K: KCreate, P: P(base + "1")}, Step{K: KWrite, P: P(base + "1"), N: 1},
				Step{K: KRRemoveNow, P: P(r)}, Step{K: KRAddNow, P: P(r)}, Step{K: KSync},
				Step{K: KCreate, P: P(base + "2")}, Step{K: KSync})
			kind[base+"1"], kind[base+"2"] = 'f', 'f'
			if rapid.Bool().Draw(t, "rereadd-rm") {
				steps = append(steps, Step{K: KRRemove, P: P(r)}, Step{K: KCreate, P: P(base + "3")}, Step{K: KSync}, Step{K: KRAdd, P: P(r)})
				kind[base+"3"] = 'f'
			}
		case k < 34 && len(live) > 1: // remove one of several recursive roots
			if inBurst > 0 {
				sync()
			}
			j := rapid.IntRange(0, len(live)-1).Draw(t, "rmroot")
			steps = append(steps, Step{K: KRRemove, P: P(live[j])})
			live = append(live[:j:j], live[j+1:]...)
		default: // file operations at any depth
			if inBurst == 0 && rapid.IntRange(0, 3).Draw(t, "plug") == 0 {
				steps = append(steps, Step{K: KPlug})
				plugged = true
			}
			_ = plugged
			fk := rapid.IntRange(0, 9).Draw(t, "fkind")
			if k == 99 {
				fk = 9
			}
			fs := files()
			switch {
			case fk < 4 || len(fs) == 0:
				p := rapid.SampledFrom(allDirs()).Draw(t, "fdir") + "/" + rapid.SampledFrom(fnames).Draw(t, "fname")
				steps = append(steps, Step{K: KCreate, P: P(p)})
				if _, ok := kind[p]; !ok {
					kind[p] = 'f'
				}
			case fk < 6:
				steps = append(steps, Step{K: KWrite, P: P(rapid.SampledFrom(fs).Draw(t, "wfile")), N: 2})
			case fk < 7:
				steps = append(steps, Step{K: KChmod, P: P(rapid.SampledFrom(fs).Draw(t, "cfile")), N: 0o600})
			case fk < 9:
				p := rapid.SampledFrom(fs).Draw(t, "ufile")
				steps = append(steps, Step{K: KUnlink, P: P(p)})
				delete(kind, p)
			default: // move a file between two directories of the same tree
				src := rapid.SampledFrom(fs).Draw(t, "mfile")
				dst := rapid.SampledFrom(dirsOf(rootOf(src))).Draw(t, "mfdir") + "/" + rapid.SampledFrom(fnames).Draw(t, "mfname")
				if kk, ok := kind[dst]; ok && kk == 'd' || dst == src {
					continue
				}
				steps = append(steps, Step{K: KRename, P: P(src), Q: P(dst)})
				delete(kind, src)
				kind[dst] = 'f'
			}
			inBurst++
			if rapid.IntRange(0, 2).Draw(t, "endburst") == 0 {
				sync()
			}
		}
	}
	steps = append(steps, Step{K: KSync})
	c.Steps = steps
	_ = filepath.Clean
	return c
}
