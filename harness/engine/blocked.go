package engine

import (
	"regexp"
	"runtime"
	"strings"
	"time"
)

// CodeFrames: substrings that identify stack frames of the code under test.
// The kqueue harness, whose copy of the backend lives in its own package,
// replaces them.
var CodeFrames = []string{"fsnotify."}

func inCode(stack string) bool {
	for _, f := range CodeFrames {
		if strings.Contains(stack, f) {
			return true
		}
	}
	return false
}

var goHeader = regexp.MustCompile(`^goroutine (\d+) \[([^\],]+)`)

// GoroutineState returns id, state and stack of the first goroutine whose
// stack contains marker; a marker "gid:N" selects goroutine N.
func GoroutineState(marker string) (id, state, stack string) {
	gid := strings.TrimPrefix(marker, "gid:")
	for i, g := range Goroutines() {
		if i == 0 {
			continue
		}
		m := goHeader.FindStringSubmatch(g)
		if m == nil {
			continue
		}
		if gid != marker {
			if m[1] != gid {
				continue
			}
		} else if !strings.Contains(g, marker) {
			continue
		}
		return m[1], m[2], g
	}
	return "", "", ""
}

// GoID returns the calling goroutine's id.
func GoID() string {
	buf := make([]byte, 64)
	buf = buf[:runtime.Stack(buf, false)]
	if m := goHeader.FindSubmatch(buf); m != nil {
		return string(m[1])
	}
	return ""
}

func blockingState(s string) bool {
	switch s {
	case "chan send", "chan receive", "select", "sync.Mutex.Lock", "semacquire", "sync.RWMutex.Lock", "sync.RWMutex.RLock", "sync.Cond.Wait", "sync.WaitGroup.Wait",
		"chan send (nil chan)", "chan receive (nil chan)", "select (no cases)":
		return true
	}
	return false
}

// BlockedProof decides whether the goroutine carrying marker is blocked inside
// fsnotify: two dumps one second apart must both show it in the same blocking
// state with fsnotify frames. Returns proof text, or "" when there is no proof
// (the goroutine finished, is running, or is merely slow).
func BlockedProof(marker string) string {
	id1, st1, stack1 := GoroutineState(marker)
	if id1 == "" || !blockingState(st1) || !inCode(stack1) {
		return ""
	}
	if anyFsnotifyRunnable() {
		return "" // somebody inside fsnotify can still make progress (perhaps starved of CPU): no proof
	}
	time.Sleep(time.Second)
	id2, st2, stack2 := GoroutineState(marker)
	if id2 != id1 || st2 != st1 || anyFsnotifyRunnable() {
		return ""
	}
	proof := "call blocked: " + strings.SplitN(stack2, "\n", 2)[0] + "\n" + stack2
	for _, g := range FsnotifyGoroutines() {
		if strings.Contains(g, "readEvents") {
			proof += "\n\nreader: " + g
		}
	}
	return proof
}

// anyFsnotifyRunnable reports whether some goroutine with fsnotify frames is
// running, runnable or in a system call: on a loaded machine such a goroutine
// may simply not have been scheduled yet, so nothing waiting for it is proved
// to wait forever.
func anyFsnotifyRunnable() bool {
	for _, g := range FsnotifyGoroutines() {
		if m := goHeader.FindStringSubmatch(g); m != nil {
			switch m[2] {
			case "running", "runnable", "syscall":
				return true
			}
		}
	}
	return false
}

var fsnotifyFrame = regexp.MustCompile(`github\.com/fsnotify/fsnotify\.[^\s(]*(\([^)]*\))?[\w.]*`)

// spinning returns, for every goroutine that is running or runnable inside
// fsnotify, "id@innermost fsnotify function".
func spinning() map[string]string {
	out := map[string]string{}
	for _, g := range FsnotifyGoroutines() {
		m := goHeader.FindStringSubmatch(g)
		if m == nil || (m[2] != "running" && m[2] != "runnable") {
			continue
		}
		if f := fsnotifyFrame.FindString(g); f != "" {
			out[m[1]] = f
		}
	}
	return out
}

// SpinProof recognises a livelock: a goroutine has been running (never
// blocked, never finished) in the same fsnotify function across four dumps
// spread over twelve seconds - for code whose critical sections take
// microseconds. Returns a description, or "" when nothing of the kind is seen.
// CPU starvation moves a goroutine between functions or lets it finish; only an
// unbounded loop keeps it in one place for that long.
func SpinProof() string {
	first := spinning()
	if len(first) == 0 {
		return ""
	}
	for i := 0; i < 3; i++ {
		time.Sleep(4 * time.Second)
		now := spinning()
		for id, f := range first {
			if now[id] != f {
				delete(first, id)
			}
		}
		if len(first) == 0 {
			return ""
		}
	}
	for id, f := range first {
		for _, g := range FsnotifyGoroutines() {
			if m := goHeader.FindStringSubmatch(g); m != nil && m[1] == id {
				return "goroutine " + id + " has been running in " + f + " for 12 s without blocking or finishing (unbounded loop)\n" + g
			}
		}
	}
	return ""
}
