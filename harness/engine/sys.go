// Package engine is the shared machinery of the inotify-side checks: a raw
// "shadow" inotify instance, the reference model, the sentinel/plug protocol
// that lets the harness own the schedule of fsnotify's reader goroutine, and
// probes (FIONREAD, fdinfo, descriptors, goroutines).
package engine

import (
	"bufio"
	"bytes"
	"encoding/binary"
	"fmt"
	"os"
	"runtime"
	"sort"
	"strconv"
	"strings"
	"syscall"
	"unsafe"

	"golang.org/x/sys/unix"
)

// DefaultMask is the kernel mask the documentation implies for the default
// operation set (Create|Write|Remove|Rename|Chmod); written from the table in
// the property text, not copied from the backend.
const DefaultMask = unix.IN_CREATE | unix.IN_MODIFY | unix.IN_DELETE | unix.IN_DELETE_SELF |
	unix.IN_MOVED_TO | unix.IN_MOVED_FROM | unix.IN_MOVE_SELF | unix.IN_ATTRIB

// Raw is one decoded inotify record.
type Raw struct {
	Wd     int32
	Mask   uint32
	Cookie uint32
	Name   string
}

func (r Raw) String() string {
	return fmt.Sprintf("{wd=%d mask=%s cookie=%d name=%q}", r.Wd, MaskString(r.Mask), r.Cookie, r.Name)
}

var maskNames = []struct {
	b uint32
	n string
}{
	{unix.IN_ACCESS, "ACCESS"}, {unix.IN_MODIFY, "MODIFY"}, {unix.IN_ATTRIB, "ATTRIB"},
	{unix.IN_CLOSE_WRITE, "CLOSE_WRITE"}, {unix.IN_CLOSE_NOWRITE, "CLOSE_NOWRITE"}, {unix.IN_OPEN, "OPEN"},
	{unix.IN_MOVED_FROM, "MOVED_FROM"}, {unix.IN_MOVED_TO, "MOVED_TO"}, {unix.IN_CREATE, "CREATE"},
	{unix.IN_DELETE, "DELETE"}, {unix.IN_DELETE_SELF, "DELETE_SELF"}, {unix.IN_MOVE_SELF, "MOVE_SELF"},
	{unix.IN_UNMOUNT, "UNMOUNT"}, {unix.IN_Q_OVERFLOW, "Q_OVERFLOW"}, {unix.IN_IGNORED, "IGNORED"},
	{unix.IN_ISDIR, "ISDIR"},
}

func MaskString(m uint32) string {
	var s []string
	for _, x := range maskNames {
		if m&x.b != 0 {
			s = append(s, x.n)
			m &^= x.b
		}
	}
	if m != 0 {
		s = append(s, fmt.Sprintf("%#x", m))
	}
	return strings.Join(s, "|")
}

// Decode splits a buffer returned by read(2) on an inotify descriptor. It is
// written independently of the code under test.
func Decode(buf []byte) []Raw {
	var out []Raw
	for len(buf) >= 16 {
		wd := int32(binary.LittleEndian.Uint32(buf[0:]))
		mask := binary.LittleEndian.Uint32(buf[4:])
		cookie := binary.LittleEndian.Uint32(buf[8:])
		l := int(binary.LittleEndian.Uint32(buf[12:]))
		name := buf[16 : 16+l]
		if i := bytes.IndexByte(name, 0); i >= 0 {
			name = name[:i]
		}
		out = append(out, Raw{wd, mask, cookie, string(name)})
		buf = buf[16+l:]
	}
	return out
}

// Shadow is the harness's own raw inotify instance.
type Shadow struct {
	Fd  int
	buf []byte
}

func NewShadow() (*Shadow, error) {
	fd, err := unix.InotifyInit1(unix.IN_CLOEXEC | unix.IN_NONBLOCK)
	if err != nil {
		return nil, err
	}
	return &Shadow{Fd: fd, buf: make([]byte, 1<<20)}, nil
}

func (s *Shadow) Close() { unix.Close(s.Fd) }

func (s *Shadow) Add(path string, mask uint32) (int, error) {
	wd, err := unix.InotifyAddWatch(s.Fd, path, mask)
	if err != nil {
		return -1, err
	}
	return wd, nil
}

func (s *Shadow) Rm(wd int) error {
	_, err := unix.InotifyRmWatch(s.Fd, uint32(wd))
	return err
}

// Drain reads everything that is queued right now.
func (s *Shadow) Drain() []Raw {
	var out []Raw
	for {
		n, err := unix.Read(s.Fd, s.buf)
		if err == unix.EINTR {
			continue
		}
		if err != nil || n <= 0 {
			return out
		}
		out = append(out, Decode(s.buf[:n])...)
	}
}

// Fionread returns the number of unread bytes queued on an inotify descriptor.
func Fionread(fd int) (int, error) {
	var n int32
	_, _, e := syscall.Syscall(syscall.SYS_IOCTL, uintptr(fd), 0x541B, uintptr(unsafe.Pointer(&n)))
	if e != 0 {
		return 0, e
	}
	return int(n), nil
}

// Mark is one "inotify wd:" line of /proc/self/fdinfo/<fd>.
type Mark struct {
	Wd   int
	Ino  uint64
	Sdev uint64
	Mask uint32
}

// Key identifies the watched object and the subscribed mask, independent of
// the watch descriptor number.
func (m Mark) Key() string { return fmt.Sprintf("ino=%x sdev=%x mask=%x", m.Ino, m.Sdev, m.Mask) }

func Fdinfo(fd int) ([]Mark, error) {
	f, err := os.Open("/proc/self/fdinfo/" + strconv.Itoa(fd))
	if err != nil {
		return nil, err
	}
	defer f.Close()
	var out []Mark
	sc := bufio.NewScanner(f)
	for sc.Scan() {
		line := sc.Text()
		if !strings.HasPrefix(line, "inotify ") {
			continue
		}
		var m Mark
		for _, fld := range strings.Fields(line)[1:] {
			kv := strings.SplitN(fld, ":", 2)
			if len(kv) != 2 {
				continue
			}
			switch kv[0] {
			case "wd":
				m.Wd, _ = strconv.Atoi(kv[1])
			case "ino":
				m.Ino, _ = strconv.ParseUint(kv[1], 16, 64)
			case "sdev":
				m.Sdev, _ = strconv.ParseUint(kv[1], 16, 64)
			case "mask":
				v, _ := strconv.ParseUint(kv[1], 16, 32)
				m.Mask = uint32(v)
			}
		}
		out = append(out, m)
	}
	return out, sc.Err()
}

func MarkKeys(ms []Mark, skipWd int) []string {
	var out []string
	for _, m := range ms {
		if m.Wd == skipWd {
			continue
		}
		out = append(out, m.Key())
	}
	sort.Strings(out)
	return out
}

// InotifyFds lists the descriptors of this process that are inotify instances.
func InotifyFds() []int {
	ents, err := os.ReadDir("/proc/self/fd")
	if err != nil {
		return nil
	}
	var out []int
	for _, e := range ents {
		l, err := os.Readlink("/proc/self/fd/" + e.Name())
		if err == nil && l == "anon_inode:inotify" {
			n, _ := strconv.Atoi(e.Name())
			out = append(out, n)
		}
	}
	sort.Ints(out)
	return out
}

// Goroutines returns the stacks of all goroutines, split per goroutine.
func Goroutines() []string {
	buf := make([]byte, 1<<20)
	for {
		n := runtime.Stack(buf, true)
		if n < len(buf) {
			buf = buf[:n]
			break
		}
		buf = make([]byte, 2*len(buf))
	}
	return strings.Split(string(buf), "\n\n")
}

// BackendFrames identify goroutines that are inside backend code.
var BackendFrames = []string{"fsnotify.(*inotify).", "fsnotify.(*shared)."}

// FsnotifyGoroutines returns the stacks of goroutines running backend code
// (frames of the inotify type), excluding the caller.
func FsnotifyGoroutines() []string {
	var out []string
	for i, g := range Goroutines() {
		if i == 0 {
			continue // the calling goroutine
		}
		for _, f := range BackendFrames {
			if strings.Contains(g, f) {
				out = append(out, g)
				break
			}
		}
	}
	return out
}
