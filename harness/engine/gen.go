package engine

import (
	"fmt"
	"os"
	"path/filepath"
	"sort"
	"strings"

	"pgregory.net/rapid"
)

// GenCfg selects emphasis for the shared history generator.
type GenCfg struct {
	Prop       string
	MinOps     int
	MaxOps     int
	Bufs       []int // Events capacities to draw from (-1 = NewWatcher)
	PBurst     int   // percent of segments run as a burst
	PPlug      int   // percent of bursts that are plugged (else free-running)
	MaxBurst   int
	PApi       int  // percent of steps that are Add/Remove/WatchList after the prologue
	Spellings  bool // vary the spelling of Add/Remove arguments
	Shapes     bool // use the full name-shape generator (else short ASCII)
	Fdchk      bool // insert kernel-mark comparisons
	ListEvery  bool // WatchList after every API step and every sync
	W          map[string]int
	Sub        bool // create the nested directory d0/sub
	Symlinks   bool // create symlinks ld0 -> d0, lf -> d0/<name>
	MaxAdds    int
	PPause     int // percent of burst operations followed by a consumer pause of 120-300 ms (delayed consumer)
	PDot       int // percent of Add steps that watch the working directory itself under a spelling that cleans to "." (entries are then named "./entry")
	PRecv      int // percent of operations in plugged bursts followed by a blocking receive of 1-3 events (the reader advances that far and parks again)
	PLongPause int // percent of bursts in which the consumer stays away for 1.1 s (quick) / 1.1-2.5 s (thorough) after one operation
	POps       int // percent of Adds that request a subset of the operations
	PMacro     int // percent of operations replaced by a multi-step lifecycle macro on a watched file (re-point, alias swap, ...)
	PRemoveNow int // percent of plugged bursts that contain a Remove of a watched dir followed by ops under fresh names
	Others     int // up to this many other Watchers with random activity (C14)
	PAbsorb    int // percent of segments run as absorb segments (needs a buffered channel)
	MaxNames   int // size of the name pool (default 6)
	PAddAgain  int // percent of Adds that re-add a path added before (default 25)
	POnTop     int // percent of chmod/mkdir/rmdir/rename/rmr steps aimed at d0/d1 themselves (default 3)
	WatchFiles int // percent of prologue Adds that target files
}

var defaultWeights = map[string]int{
	KCreate: 10, KWrite: 10, KTrunc: 3, KChmod: 5, KUnlink: 8, KMkdir: 4, KRmdir: 3,
	KRename: 10, KLink: 3, KSymlink: 3, KHold: 2, KRelease: 2, KRmr: 1,
}

// lightFS is the generator's own rough idea of the tree. It only steers the
// choice of operations towards applicable ones; oracles never look at it.
type lightFS struct {
	kind map[string]byte // 'f', 'd', 'l'
}

func (l *lightFS) existing(pred func(p string, k byte) bool) []string {
	var out []string
	for p, k := range l.kind {
		if pred(p, k) {
			out = append(out, p)
		}
	}
	sort.Strings(out)
	return out
}

func (l *lightFS) rmTree(p string) {
	for q := range l.kind {
		if q == p || strings.HasPrefix(q, p+"/") {
			delete(l.kind, q)
		}
	}
}

func (l *lightFS) mvTree(a, b string) {
	moved := map[string]byte{}
	for q, k := range l.kind {
		if q == a || strings.HasPrefix(q, a+"/") {
			moved[b+q[len(a):]] = k
			delete(l.kind, q)
		}
	}
	for q, k := range moved {
		l.kind[q] = k
	}
}

type Gen struct {
	t       *rapid.T
	cfg     GenCfg
	fs      lightFS
	names   []string
	dirs    []string // directories in which entries are manipulated
	added   []string // arguments of successful-looking Adds (generator's guess)
	held    map[int]bool
	root    string // placeholder for the absolute root, substituted at run time
	steps   []Step
	nops    int
	nothers int
	fresh   int
}

// AbsRoot is replaced by the real temp root when a case is executed.
const AbsRoot = "\x00ROOT"

var boundaryLens = func() []int {
	var l []int
	for k := 1; k <= 15; k++ {
		l = append(l, 16*k-1, 16*k, 16*k+1)
	}
	l = append(l, 1, 2, 254, 255)
	var out []int
	for _, x := range l {
		if x >= 1 && x <= 255 {
			out = append(out, x)
		}
	}
	return out
}()

// GenName draws one entry name: arbitrary bytes without '/' and NUL, never
// "." or "..", at most 255 bytes.
func GenName(t *rapid.T, label string) string {
	kind := rapid.IntRange(0, 9).Draw(t, label+"-shape")
	var s string
	switch {
	case kind <= 2:
		s = rapid.StringMatching(`[a-z]{1,8}`).Draw(t, label)
	case kind <= 5:
		n := rapid.SampledFrom(boundaryLens).Draw(t, label+"-len")
		unit := rapid.SampledFrom([]string{"x", "ab", "é", "日本", "-", " "}).Draw(t, label+"-unit")
		var b strings.Builder
		for b.Len()+len(unit) <= n {
			b.WriteString(unit)
		}
		for b.Len() < n {
			b.WriteByte('p')
		}
		s = b.String()
	case kind == 6:
		s = rapid.StringMatching(`[a-zé日ü ]{1,12}`).Draw(t, label)
	case kind == 7:
		b := rapid.SliceOfN(rapid.ByteRange(1, 255), 1, 20).Draw(t, label)
		for i := range b {
			if b[i] == '/' {
				b[i] = '_'
			}
		}
		s = string(b)
	case kind == 8:
		s = rapid.SampledFrom([]string{"-", "-rf", ".hidden", " ", " lead", "trail ", "a b", "...", "..a", "a\nb", "\t", "%s", "\\", "\"q\"", "s1"}).Draw(t, label)
	default:
		s = rapid.StringMatching(`[a-c]`).Draw(t, label)
	}
	if s == "." || s == ".." || s == "" {
		s = "dot" + s
	}
	if len(s) > 255 {
		s = s[:255]
	}
	return s
}

func NewGen(t *rapid.T, cfg GenCfg) *Gen {
	g := &Gen{t: t, cfg: cfg, held: map[int]bool{}}
	g.fs.kind = map[string]byte{}
	if g.cfg.W == nil {
		g.cfg.W = defaultWeights
	}
	return g
}

func (g *Gen) pick(label string, xs []string) string {
	return rapid.SampledFrom(xs).Draw(g.t, label)
}

func (g *Gen) pct(label string, p int) bool { return Pct(g.t, label, p) }

// Pct is true with probability p/100. rapid's integer generators are biased
// towards small values (a 2% branch drawn with IntRange(0,99) fires ~25% of
// the time), so the draw is assembled from fair coin flips instead.
func Pct(t *rapid.T, label string, p int) bool {
	if p <= 0 {
		return false
	}
	if p >= 100 {
		return true
	}
	v := 0
	for i := 0; i < 7; i++ {
		v <<= 1
		if rapid.Bool().Draw(t, label) {
			v |= 1
		}
	}
	if v >= 100 {
		v -= 100
	}
	return v < p
}

// Case draws a complete case.
func (g *Gen) Case() *Case {
	t := g.t
	c := &Case{Prop: g.cfg.Prop}
	bufs := g.cfg.Bufs
	if len(bufs) == 0 {
		bufs = []int{-1, 0, 1, 2, 7, 64, 4096}
	}
	c.Buf = rapid.SampledFrom(bufs).Draw(t, "buf")

	// names
	maxn := g.cfg.MaxNames
	if maxn < 2 {
		maxn = 6
	}
	nn := rapid.IntRange(2, maxn).Draw(t, "nnames")
	seen := map[string]bool{}
	for i := 0; len(g.names) < nn && i < 50; i++ {
		var n string
		if g.cfg.Shapes {
			n = GenName(t, "name")
		} else {
			n = rapid.StringMatching(`[a-d]{1,3}`).Draw(t, "name")
		}
		if !seen[n] && n != "sub" && n != "ld0" && n != "lf" {
			seen[n] = true
			g.names = append(g.names, n)
		}
	}
	if len(g.names) == 0 {
		g.names = []string{"n"}
	}

	// setup: directories and a few pre-existing entries
	g.dirs = []string{"d0", "d1", "u"}
	for _, d := range g.dirs {
		c.Setup = append(c.Setup, Step{K: KMkdir, P: P(d)})
		g.fs.kind[d] = 'd'
	}
	if g.cfg.Sub && g.pct("sub", 60) {
		c.Setup = append(c.Setup, Step{K: KMkdir, P: "d0/sub"})
		g.fs.kind["d0/sub"] = 'd'
		g.dirs = append(g.dirs, "d0/sub")
	}
	npre := rapid.IntRange(0, 4).Draw(t, "npre")
	for i := 0; i < npre; i++ {
		p := g.pick("predir", g.dirs) + "/" + g.pick("prename", g.names)
		if _, ok := g.fs.kind[p]; ok {
			continue
		}
		if g.pct("predirkind", 20) {
			c.Setup = append(c.Setup, Step{K: KMkdir, P: P(p)})
			g.fs.kind[p] = 'd'
		} else {
			c.Setup = append(c.Setup, Step{K: KCreate, P: P(p)})
			g.fs.kind[p] = 'f'
		}
	}
	if g.cfg.Symlinks {
		c.Setup = append(c.Setup, Step{K: KSymlink, P: "d0", Q: "ld0"})
		g.fs.kind["ld0"] = 'l'
		files := g.fs.existing(func(p string, k byte) bool { return k == 'f' })
		if len(files) > 0 {
			f := g.pick("lftarget", files)
			// relative link living in u/, pointing at the file
			c.Setup = append(c.Setup, Step{K: KSymlink, P: P("../" + f), Q: "u/lf"})
			g.fs.kind["u/lf"] = 'l'
		}
	}

	// prologue: 1..MaxAdds watches
	maxAdds := g.cfg.MaxAdds
	if maxAdds == 0 {
		maxAdds = 3
	}
	nadd := rapid.IntRange(1, maxAdds).Draw(t, "nadd")
	for i := 0; i < nadd; i++ {
		if i < 2 && g.pct("maindir", 75) {
			// most cases watch the busy directories d0 / d1
			d := []string{"d0", "d1"}[i]
			g.steps = append(g.steps, Step{K: KAdd, P: P(g.spell(d, false))})
			g.added = append(g.added, d)
			continue
		}
		g.apiStep(true)
	}

	target := rapid.IntRange(g.cfg.MinOps, g.cfg.MaxOps).Draw(t, "nops")
	for g.nops < target {
		if g.cfg.Others > 0 && g.pct("other", 25) {
			g.otherStep()
		}
		switch {
		case g.pct("api", g.cfg.PApi):
			g.apiStep(false)
			g.nops++
		case c.Buf > 0 && g.pct("absorb", g.cfg.PAbsorb):
			g.steps = append(g.steps, Step{K: KAbsorb})
			if files := g.fs.existing(func(p string, k byte) bool {
				return k == 'f' && (strings.HasPrefix(p, "d0/") || strings.HasPrefix(p, "d1/")) && strings.Count(p, "/") == 1
			}); len(files) > 0 && c.Buf <= 16 && g.pct("absorbrep", 50) {
				// fill the buffer to the brim with repeats of one event, plus one more
				f := g.pick("absorbfile", files)
				for i := 0; i < c.Buf+1; i++ {
					g.steps = append(g.steps, Step{K: KWrite, P: P(f), N: 1})
					g.nops++
				}
			} else {
				k := rapid.IntRange(1, 6).Draw(t, "absorblen")
				for i := 0; i < k; i++ {
					g.fsStep()
				}
			}
			g.sync()
		case g.pct("burst", g.cfg.PBurst):
			k := rapid.IntRange(2, g.cfg.MaxBurst).Draw(t, "burstlen")
			plug := g.pct("plug", g.cfg.PPlug)
			if plug {
				g.steps = append(g.steps, Step{K: KPlug})
			}
			rmAt := -1
			if plug && len(g.added) > 0 && g.pct("removenow", g.cfg.PRemoveNow) {
				rmAt = rapid.IntRange(0, k-1).Draw(t, "rmat")
			}
			longAt := -1
			plong := g.cfg.PLongPause
			if os.Getenv("VERIF_TIER") == "thorough" {
				plong = (plong + 1) / 2 // 120 times the cases: half the rate keeps the tier inside its time cap
			}
			if g.pct("longpause", plong) {
				longAt = rapid.IntRange(0, k-1).Draw(t, "longat")
			}
			for i := 0; i < k; i++ {
				if i == rmAt {
					j := rapid.IntRange(0, len(g.added)-1).Draw(t, "rmnowidx")
					p := g.added[j]
					g.added = append(g.added[:j:j], g.added[j+1:]...)
					g.steps = append(g.steps, Step{K: KRemoveNow, P: P(g.spell(p, true))})
					if g.fs.kind[p] == 'd' {
						// changes made after Remove has returned, under names never used before
						g.fresh++
						f := P(p + "/post-" + string(rune('a'+g.fresh%26)) + string(rune('a'+(g.fresh/26)%26)))
						g.steps = append(g.steps, Step{K: KCreate, P: f}, Step{K: KWrite, P: f, N: 1})
						if g.pct("postrm", 50) {
							g.steps = append(g.steps, Step{K: KUnlink, P: f})
						}
					}
				}
				g.fsStep()
				if g.pct("pause", g.cfg.PPause) {
					g.steps = append(g.steps, Step{K: KPause, N: rapid.SampledFrom([]int{120, 180, 300}).Draw(t, "pausems")})
				}
				if plug && g.pct("recv", g.cfg.PRecv) {
					g.steps = append(g.steps, Step{K: KRecv, N: rapid.IntRange(1, 3).Draw(t, "recvn")})
				}
				if i == longAt {
					if plug {
						// the reader moves on by an event or two and parks again, so
						// that what it holds meanwhile (e.g. the first half of a move)
						// ages while the consumer is away
						g.steps = append(g.steps, Step{K: KRecv, N: rapid.IntRange(1, 2).Draw(t, "longrecv")})
					}
					ms := 1100
					if os.Getenv("VERIF_TIER") == "thorough" {
						ms = rapid.SampledFrom([]int{1100, 1600, 2500}).Draw(t, "longms")
					}
					g.steps = append(g.steps, Step{K: KPause, N: ms})
				}
				if !plug && g.pct("poll", 15) {
					g.steps = append(g.steps, Step{K: KPoll, N: rapid.IntRange(1, 5).Draw(t, "polln")})
				}
			}
			g.sync()
		case g.pct("macro", g.cfg.PMacro):
			g.macro()
		default:
			g.fsStep()
			g.sync()
		}
	}
	if g.cfg.Fdchk {
		g.steps = append(g.steps, Step{K: KFdchk})
	}
	g.steps = append(g.steps, Step{K: KList})
	c.Steps = g.steps
	return c
}

var capChoices = []int{-1, 0, 1, 2, 4, 8, 16, 64, 256, 1024, 4096, 16384, 65536}

func (g *Gen) otherStep() {
	t := g.t
	if g.nothers == 0 || (g.nothers < g.cfg.Others && g.pct("xnew", 30)) {
		g.steps = append(g.steps, Step{K: KXNew, N: rapid.SampledFrom(capChoices).Draw(t, "xcap")})
		g.nothers++
		return
	}
	i := rapid.IntRange(0, g.nothers-1).Draw(t, "xidx")
	p := P(g.pick("xpath", []string{"d0", "d1", "d0/sub", "u", "ld0", g.anyPath("xp")}))
	switch rapid.IntRange(0, 9).Draw(t, "xkind") {
	case 0, 1, 2, 3, 4:
		g.steps = append(g.steps, Step{K: KXAdd, N: i, P: p})
	case 5, 6, 7:
		g.steps = append(g.steps, Step{K: KXRemove, N: i, P: p})
	default:
		g.steps = append(g.steps, Step{K: KXClose, N: i})
	}
}

// macro emits one of the multi-step situations the lifecycle properties
// quantify over, built directly instead of waiting for chance to assemble it:
// a listed file path comes to name a new inode while the old inode is kept
// alive (hard link / open descriptor), comes to name a file that is already
// watched under another name, is renamed away and back, is overwritten by a
// rename, ... followed by a re-Add and further activity.
func (g *Gen) macro() {
	t := g.t
	files := g.fs.existing(func(p string, k byte) bool { return k == 'f' && strings.Count(p, "/") == 1 })
	if len(files) == 0 {
		g.fsStep()
		g.sync()
		return
	}
	f := g.pick("macro-file", files)
	g.fresh++
	keep := P("u/keep-" + string(rune('a'+g.fresh%26)) + string(rune('a'+(g.fresh/26)%26)))
	add := func(p string) { g.steps = append(g.steps, Step{K: KAdd, P: P(g.spell(p, false))}) }
	em := func(s ...Step) { g.steps = append(g.steps, s...) }
	burst := g.pct("macro-burst", 35)
	if !burst {
		add(f)
	}
	g.nops += 4
	nk := 8
	if g.cfg.POps > 0 {
		nk = 9 // operation-subset re-adds only where the check quantifies over requested operation sets
	}
	kind := rapid.IntRange(0, nk+8).Draw(t, "macro-kind")
	switch {
	case kind > nk+5:
		kind = 7 // the re-add between the two records that end a watch: three more shares
	case kind > nk:
		kind = 10 + (kind - nk - 1)
	}
	switch kind {
	case 14: // the listed path is replaced and re-added twice in a row, each old file kept
		// alive (hard link, then open descriptor); then every incarnation is changed
		slot := rapid.IntRange(0, 2).Draw(t, "macro-slot4")
		if g.held[slot] {
			em(Step{K: KRelease, N: slot})
		}
		add(f)
		em(Step{K: KLink, P: P(f), Q: keep}, Step{K: KUnlink, P: P(f)}, Step{K: KCreate, P: P(f)})
		add(f)
		em(Step{K: KWrite, P: P(f), N: 1})
		g.sync()
		em(Step{K: KHold, P: P(f), N: slot}, Step{K: KUnlink, P: P(f)}, Step{K: KCreate, P: P(f)})
		add(f)
		em(Step{K: KWrite, P: P(f), N: 1}, Step{K: KWrite, P: keep, N: 1}, Step{K: KRelease, N: slot})
		delete(g.held, slot)
		g.sync()
		g.steps = append(g.steps, Step{K: KList})
		if g.cfg.Fdchk {
			g.steps = append(g.steps, Step{K: KFdchk})
		}
		g.added = append(g.added, f)
		return
	case 11: // renamed, then removed under its new name before the reader has seen the rename
		if g.pct("macro-withdir", 40) {
			add(filepath.Dir(f))
		}
		add(f)
		g.sync()
		em(Step{K: KPlug}, Step{K: KRename, P: P(f), Q: keep}, Step{K: KWrite, P: keep, N: 1}, Step{K: KUnlink, P: keep})
		if g.pct("macro-recreate", 50) {
			em(Step{K: KCreate, P: P(f)})
		}
		g.sync()
		g.steps = append(g.steps, Step{K: KList})
		return
	case 12: // Add of a listed path fails (the name is gone) while its old file lives on
		// through a hard link: the watch must survive the failed call
		add(f)
		em(Step{K: KLink, P: P(f), Q: keep}, Step{K: KUnlink, P: P(f)})
		add(f)
		em(Step{K: KWrite, P: keep, N: 1}, Step{K: KChmod, P: keep, N: 0o600})
		g.sync()
		em(Step{K: KUnlink, P: keep})
		g.sync()
		g.steps = append(g.steps, Step{K: KList})
		return
	case 13: // a watched directory is renamed away and a watched file inside it removed
		// before the reader has handled the directory's own notification
		d := filepath.Dir(f)
		if d == "d0" || strings.Count(d, "/") > 0 {
			// keep the main directory; use this shape for d1 and below only
			if d == "d0" {
				g.fsStep()
				g.sync()
				return
			}
		}
		add(d)
		add(f)
		g.sync()
		moved := "u/moved-" + string(rune('a'+g.fresh%26))
		em(Step{K: KPlug}, Step{K: KRename, P: P(d), Q: P(moved)}, Step{K: KUnlink, P: P(moved + "/" + filepath.Base(f))})
		g.sync()
		em(Step{K: KRename, P: P(moved), Q: P(d)})
		g.sync()
		g.steps = append(g.steps, Step{K: KList})
		return
	case 10: // two incarnations of a watched entry of a watched directory: the old inode
		// lives on (hard link or open descriptor) while the name is re-created and
		// changed, and goes away afterwards; the path is not added again
		add(filepath.Dir(f))
		add(f)
		slot := rapid.IntRange(0, 2).Draw(t, "macro-slot3")
		viaLink := g.pct("macro-vialink", 50)
		if viaLink {
			em(Step{K: KLink, P: P(f), Q: keep})
		} else {
			if g.held[slot] {
				em(Step{K: KRelease, N: slot})
			}
			em(Step{K: KHold, P: P(f), N: slot})
		}
		em(Step{K: KUnlink, P: P(f)}, Step{K: KCreate, P: P(f)}, Step{K: KWrite, P: P(f), N: 1})
		if g.pct("macro-midsync", 50) {
			g.sync()
		}
		if viaLink {
			em(Step{K: KWrite, P: keep, N: 1}, Step{K: KUnlink, P: keep})
		} else {
			em(Step{K: KRelease, N: slot})
			delete(g.held, slot)
		}
		em(Step{K: KChmod, P: P(f), N: 0o600})
		g.sync()
		g.steps = append(g.steps, Step{K: KList})
		return
	case 9: // the same path added several times with different operation sets, then moved / removed
		for i, n := 0, rapid.IntRange(2, 3).Draw(t, "macro-nadds"); i < n; i++ {
			em(Step{K: KAdd, P: P(g.spell(f, false)), N: rapid.SampledFrom([]int{0, 2, 16, 1, 4, 8, 31, 18}).Draw(t, "macro-ops")})
		}
		em(Step{K: KWrite, P: P(f), N: 1}, Step{K: KChmod, P: P(f), N: 0o600})
		if g.pct("macro-mv", 50) {
			em(Step{K: KRename, P: P(f), Q: keep}, Step{K: KWrite, P: keep, N: 1})
		} else {
			em(Step{K: KUnlink, P: P(f)})
		}
		g.sync()
		g.steps = append(g.steps, Step{K: KList})
		if g.cfg.Fdchk {
			g.steps = append(g.steps, Step{K: KFdchk})
		}
		return
	case 7, 8: // deleted, recreated and re-added while the old file's events are still being delivered
		add(f)
		g.sync()
		if g.pct("macro-plug", 30) {
			em(Step{K: KPlug})
		}
		em(Step{K: KUnlink, P: P(f)}, Step{K: KRecv, N: rapid.IntRange(0, 3).Draw(t, "macro-recv")}, Step{K: KCreate, P: P(f)},
			Step{K: KAddNow, P: P(g.spell(f, false))}, Step{K: KWrite, P: P(f), N: 1})
		g.added = append(g.added, f)
		g.sync()
		g.steps = append(g.steps, Step{K: KList})
		return
	case 0: // new inode under a listed path, old inode alive through a hard link
		add(f)
		em(Step{K: KLink, P: P(f), Q: keep}, Step{K: KUnlink, P: P(f)}, Step{K: KCreate, P: P(f)})
		add(f)
		em(Step{K: KWrite, P: P(f), N: 1}, Step{K: KWrite, P: keep, N: 1})
	case 1: // ... through an open descriptor
		slot := rapid.IntRange(0, 2).Draw(t, "macro-slot")
		if g.held[slot] {
			em(Step{K: KRelease, N: slot})
		}
		add(f)
		em(Step{K: KHold, P: P(f), N: slot}, Step{K: KUnlink, P: P(f)}, Step{K: KCreate, P: P(f)})
		add(f)
		em(Step{K: KWrite, P: P(f), N: 1}, Step{K: KRelease, N: slot})
		delete(g.held, slot)
	case 2: // listed path comes to name a file that is watched under another name
		if len(files) < 2 {
			g.fsStep()
			g.sync()
			return
		}
		other := g.pick("macro-other", files)
		if other == f {
			g.fsStep()
			g.sync()
			return
		}
		add(f)
		add(other)
		em(Step{K: KLink, P: P(f), Q: keep}, Step{K: KUnlink, P: P(f)}, Step{K: KLink, P: P(other), Q: P(f)})
		add(f)
		em(Step{K: KWrite, P: P(other), N: 1})
		g.steps = append(g.steps, Step{K: KRemove, P: P(g.spell(f, true))}, Step{K: KList})
	case 3: // renamed away and back, then re-added
		add(f)
		em(Step{K: KRename, P: P(f), Q: keep}, Step{K: KWrite, P: keep, N: 1}, Step{K: KRename, P: keep, Q: P(f)})
		add(f)
		em(Step{K: KWrite, P: P(f), N: 1})
	case 4: // overwritten by a rename from an unwatched place
		add(f)
		em(Step{K: KCreate, P: keep}, Step{K: KRename, P: keep, Q: P(f)}, Step{K: KWrite, P: P(f), N: 1})
		add(f)
		em(Step{K: KChmod, P: P(f), N: 0o600})
	case 5: // deleted, recreated, re-added; nothing keeps the old inode
		add(f)
		em(Step{K: KUnlink, P: P(f)}, Step{K: KCreate, P: P(f)})
		add(f)
		em(Step{K: KWrite, P: P(f), N: 1})
	default: // unlinked while open; the parent is added afterwards
		slot := rapid.IntRange(0, 2).Draw(t, "macro-slot2")
		if g.held[slot] {
			em(Step{K: KRelease, N: slot})
		}
		add(f)
		em(Step{K: KHold, P: P(f), N: slot}, Step{K: KUnlink, P: P(f)})
		add(filepath.Dir(f))
		em(Step{K: KRelease, N: slot}, Step{K: KCreate, P: P(f)})
		delete(g.held, slot)
	}
	g.added = append(g.added, f)
	g.sync()
}

func (g *Gen) sync() {
	g.steps = append(g.steps, Step{K: KSync})
	if g.cfg.ListEvery {
		g.steps = append(g.steps, Step{K: KList})
	}
	if g.cfg.Fdchk && g.pct("fdchk", 30) {
		g.steps = append(g.steps, Step{K: KFdchk})
	}
}

// spell returns a spelling of the relative path p that names the same object.
func (g *Gen) spell(p string, cleanSame bool) string {
	if !g.cfg.Spellings {
		return p
	}
	dir, base := filepath.Split(p)
	var opts []string
	// spellings whose filepath.Clean equals p
	opts = append(opts, p, p, "./"+p, p+"/", p+"//", p+"/.", strings.Replace(p, "/", "//", 1), dir+"./"+base)
	if !cleanSame {
		opts = append(opts, AbsRoot+"/"+p, AbsRoot+"//"+p+"/", "u/../"+p, "../r/"+p)
		if strings.HasPrefix(p, "d0/") && g.fs.kind["ld0"] == 'l' {
			opts = append(opts, "ld0/"+p[3:])
		}
		if g.fs.kind["ld0"] == 'l' {
			// ".." after a symbolic link: cleaned lexically, and here the physical
			// path names the same object (ld0 -> d0 lives beside d0)
			opts = append(opts, "ld0/../"+p)
		}
		if p == "d0" && g.fs.kind["ld0"] == 'l' {
			opts = append(opts, "ld0", "ld0/", "./ld0")
		}
		if strings.Contains(p, "/") {
			opts = append(opts, filepath.Dir(p)+"/../"+p)
		}
	}
	return g.pick("spelling", opts)
}

func (g *Gen) apiStep(prologue bool) {
	t := g.t
	r := rapid.IntRange(0, 99).Draw(t, "apikind")
	if prologue {
		r = 0
	}
	switch {
	case r < 50 && g.cfg.PDot > 0 && g.pct("adddot", g.cfg.PDot):
		sp := g.pick("dotspelling", []string{".", "./", "d0/..", "./.", "u/../", ".//"})
		g.fresh++
		f := fmt.Sprintf("top-%d", g.fresh)
		g.steps = append(g.steps, Step{K: KAdd, P: P(sp)},
			Step{K: KCreate, P: P(f)}, Step{K: KWrite, P: P(f), N: 1}, Step{K: KRename, P: P(f), Q: P(f + "x")}, Step{K: KUnlink, P: P(f + "x")})
		g.sync()
	case r < 50: // Add
		var cands []string
		wf := g.cfg.WatchFiles
		if wf == 0 {
			wf = 30
		}
		switch {
		case !prologue && len(g.added) > 0 && g.pct("addagain1", g.addAgain()):
			cands = g.added
		case g.pct("addfile", wf):
			cands = g.fs.existing(func(p string, k byte) bool { return k == 'f' || k == 'l' })
		case g.pct("addmissing", 8):
			cands = []string{"d0/missing-x", "nowhere", "d0/" + g.names[0] + "/x", strings.Repeat("L", 300), "loopA"}
		case len(g.added) > 0 && g.pct("addagain", g.addAgain()):
			cands = g.added
		default:
			cands = g.fs.existing(func(p string, k byte) bool { return k == 'd' && p != "u" })
		}
		if len(cands) == 0 {
			cands = []string{"d0"}
		}
		p := g.pick("addpath", cands)
		st := Step{K: KAdd, P: P(g.spell(p, false))}
		if g.pct("addops", g.cfg.POps) {
			st.N = rapid.IntRange(1, 31).Draw(t, "ops")
		}
		g.steps = append(g.steps, st)
		if _, ok := g.fs.kind[p]; ok {
			g.added = append(g.added, p)
		}
	case r < 80: // Remove
		var p string
		if len(g.added) > 0 && g.pct("rmlisted", 80) {
			i := rapid.IntRange(0, len(g.added)-1).Draw(t, "rmidx")
			p = g.added[i]
			g.added = append(g.added[:i:i], g.added[i+1:]...)
			p = g.spell(p, g.pct("rmcleansame", 85))
		} else {
			p = g.spell(g.pick("rmdir", g.dirs)+"/"+g.pick("rmname", g.names), true)
		}
		g.steps = append(g.steps, Step{K: KRemove, P: P(p)})
	default:
		g.steps = append(g.steps, Step{K: KList})
	}
	if g.cfg.ListEvery {
		g.steps = append(g.steps, Step{K: KList})
	}
}

func (g *Gen) addAgain() int {
	if g.cfg.PAddAgain > 0 {
		return g.cfg.PAddAgain
	}
	return 25
}

func (g *Gen) anyPath(label string) string {
	// watched territory is favoured: d0 x4, d1 x3, the rest x1
	ds := append([]string{"d0", "d0", "d0", "d1", "d1"}, g.dirs...)
	return g.pick(label+"-dir", ds) + "/" + g.pick(label+"-name", g.names)
}

func (g *Gen) existingOr(label string, pred func(p string, k byte) bool) string {
	ex := g.fs.existing(func(p string, k byte) bool {
		return pred(p, k) && p != "d0" && p != "d1" && p != "u"
	})
	if len(ex) > 0 && g.pct(label+"-ex", 85) {
		return g.pick(label, ex)
	}
	return g.anyPath(label)
}

func (g *Gen) freshOr(label string) string {
	for i := 0; i < 4; i++ {
		p := g.anyPath(label)
		if _, ok := g.fs.kind[p]; !ok {
			return p
		}
		if g.pct(label+"-occupied", 25) {
			return p
		}
	}
	return g.anyPath(label)
}

func (g *Gen) fsStep() {
	t := g.t
	g.nops++
	var kinds []string
	for k, w := range g.cfg.W {
		if w > 0 {
			kinds = append(kinds, k)
		}
	}
	sort.Strings(kinds)
	total := 0
	for _, k := range kinds {
		total += g.cfg.W[k]
	}
	r := rapid.IntRange(0, total-1).Draw(t, "opkind")
	var kind string
	for _, k := range kinds {
		if r < g.cfg.W[k] {
			kind = k
			break
		}
		r -= g.cfg.W[k]
	}
	isFile := func(p string, k byte) bool { return k == 'f' || k == 'l' }
	isAny := func(p string, k byte) bool { return true }
	isDir := func(p string, k byte) bool { return k == 'd' }
	// occasionally operate on a top-level (possibly watched) directory itself
	top := func() (string, bool) {
		pt := g.cfg.POnTop
		if pt == 0 {
			pt = 3
		}
		if pt < 0 {
			return "", false
		}
		if g.pct("ontop", pt) {
			return g.pick("topdir", []string{"d0", "d1"}), true
		}
		return "", false
	}
	var s Step
	switch kind {
	case KCreate:
		p := g.freshOr("create")
		s = Step{K: KCreate, P: P(p)}
		if _, ok := g.fs.kind[p]; !ok && g.fs.kind[filepath.Dir(p)] == 'd' {
			g.fs.kind[p] = 'f'
		}
	case KWrite:
		s = Step{K: KWrite, P: P(g.existingOr("write", isFile)), N: rapid.IntRange(1, 64).Draw(t, "nbytes")}
	case KTrunc:
		s = Step{K: KTrunc, P: P(g.existingOr("trunc", isFile)), N: rapid.IntRange(0, 8).Draw(t, "size")}
	case KChmod:
		p := g.existingOr("chmod", isAny)
		if d, ok := top(); ok {
			p = d
		}
		s = Step{K: KChmod, P: P(p), N: rapid.SampledFrom([]int{0o644, 0o600, 0o755, 0o700}).Draw(t, "mode")}
	case KUnlink:
		p := g.existingOr("unlink", isFile)
		s = Step{K: KUnlink, P: P(p)}
		if k := g.fs.kind[p]; k == 'f' || k == 'l' {
			delete(g.fs.kind, p)
		}
	case KMkdir:
		p := g.freshOr("mkdir")
		if d, ok := top(); ok {
			p = d // recreate a removed top directory
		}
		s = Step{K: KMkdir, P: P(p)}
		if _, ok := g.fs.kind[p]; !ok && (g.fs.kind[filepath.Dir(p)] == 'd' || !strings.Contains(p, "/")) {
			g.fs.kind[p] = 'd'
		}
	case KRmdir:
		p := g.existingOr("rmdir", isDir)
		if d, ok := top(); ok {
			p = d
		}
		s = Step{K: KRmdir, P: P(p)}
		if g.fs.kind[p] == 'd' && len(g.fs.existing(func(q string, k byte) bool { return strings.HasPrefix(q, p+"/") })) == 0 {
			delete(g.fs.kind, p)
		}
	case KRename:
		a := g.existingOr("mvsrc", isAny)
		b := g.freshOr("mvdst")
		if d, ok := top(); ok {
			a = d
			b = g.pick("topdst", []string{"d0", "d1", "u/moved", "dx"})
		}
		s = Step{K: KRename, P: P(a), Q: P(b)}
		if ka, ok := g.fs.kind[a]; ok && a != b && !strings.HasPrefix(b, a+"/") {
			kb, okb := g.fs.kind[b]
			pd := filepath.Dir(b)
			if (pd == "." || g.fs.kind[pd] == 'd') && (!okb || (ka != 'd' && kb != 'd') || (ka == 'd' && kb == 'd')) {
				g.fs.rmTree(b)
				g.fs.mvTree(a, b)
			}
		}
	case KLink:
		a := g.existingOr("lnsrc", isFile)
		b := g.freshOr("lndst")
		s = Step{K: KLink, P: P(a), Q: P(b)}
		if g.fs.kind[a] == 'f' {
			if _, ok := g.fs.kind[b]; !ok && g.fs.kind[filepath.Dir(b)] == 'd' {
				g.fs.kind[b] = 'f'
			}
		}
	case KSymlink:
		b := g.freshOr("symdst")
		var target string
		switch rapid.IntRange(0, 3).Draw(t, "symkind") {
		case 0:
			target = "dangling"
		case 1:
			target = AbsRoot + "/" + g.existingOr("symabs", isAny)
		case 2:
			target = g.pick("symrelname", g.names) // sibling, relative
		default:
			target = "../" + g.pick("symd", []string{"d0", "d1", "u"})
		}
		s = Step{K: KSymlink, P: P(target), Q: P(b)}
		if _, ok := g.fs.kind[b]; !ok && g.fs.kind[filepath.Dir(b)] == 'd' {
			g.fs.kind[b] = 'l'
		}
	case KHold:
		slot := rapid.IntRange(0, 2).Draw(t, "slot")
		if g.held[slot] {
			s = Step{K: KRelease, N: slot}
			delete(g.held, slot)
		} else {
			s = Step{K: KHold, P: P(g.existingOr("hold", isFile)), N: slot}
			g.held[slot] = true
		}
	case KRelease:
		slot := rapid.IntRange(0, 2).Draw(t, "slot")
		s = Step{K: KRelease, N: slot}
		delete(g.held, slot)
	case KRmr:
		p := g.existingOr("rmr", isDir)
		if d, ok := top(); ok {
			p = d
		}
		s = Step{K: KRmr, P: P(p)}
		g.fs.rmTree(p)
	default:
		panic("gen: unknown kind " + kind)
	}
	g.steps = append(g.steps, s)
}
