package winprop

import (
	"fmt"
	"math/bits"
	"os"
	"testing"

	"github.com/fsnotify/fsnotify"

	"verif/harness/engine"
	"verif/harness/winprop/windows"
)

func TestMain(m *testing.M) { engine.Main(m) }

type c15Replay struct {
	Prop    string `json:"prop"`
	Backend string `json:"backend"`
	Kind    string `json:"kind"`
	Mask    uint64 `json:"mask"`
	Cookie  uint32 `json:"cookie"`
	Ops     uint32 `json:"ops"`
	Msg     string `json:"msg"`
}

func (r c15Replay) Save(p string) error { return engine.SaveJSON(p, r) }

func fail15(t *testing.T, r c15Replay, err error) {
	r.Prop = "C15"
	r.Msg = err.Error()
	p := engine.SaveReplay("C15", r)
	t.Fatalf("property C15 violated (replay %s): %v", p, err)
}

// Documented meaning of the internal Windows mask bits (values are those of
// the historical winfsnotify FS_* constants the backend keeps using).
var winRows = []struct {
	bit uint32
	op  fsnotify.Op
}{
	{0x100, fsnotify.Create}, // create
	{0x80, fsnotify.Create},  // moved to
	{0x200, fsnotify.Remove}, // delete
	{0x400, fsnotify.Remove}, // delete self
	{0x2, fsnotify.Write},    // modify
	{0x40, fsnotify.Rename},  // moved from
	{0x800, fsnotify.Rename}, // move self
}

func checkWinTranslate(mask uint32) error {
	var want fsnotify.Op
	for _, r := range winRows {
		if mask&r.bit != 0 {
			want |= r.op
		}
	}
	e := (&readDirChangesW{}).newEvent("n", mask)
	if e.Op != want {
		return fmt.Errorf("windows mask %#x translates to %s, documented union is %s", mask, e.Op, want)
	}
	if e.Op&fsnotify.Chmod != 0 {
		return fmt.Errorf("windows mask %#x yields Chmod", mask)
	}
	if e.Name != "n" {
		return fmt.Errorf("name changed to %q", e.Name)
	}
	return nil
}

var winActions = map[uint32]fsnotify.Op{
	windows.FILE_ACTION_ADDED:            fsnotify.Create,
	windows.FILE_ACTION_REMOVED:          fsnotify.Remove,
	windows.FILE_ACTION_MODIFIED:         fsnotify.Write,
	windows.FILE_ACTION_RENAMED_OLD_NAME: fsnotify.Rename,
	windows.FILE_ACTION_RENAMED_NEW_NAME: fsnotify.Create,
}

func checkWinAction(a uint32) error {
	w := &readDirChangesW{}
	m := w.toFSnotifyFlags(a)
	if m>>32 != 0 {
		return fmt.Errorf("FILE_ACTION %d maps to mask %#x outside the event bits", a, m)
	}
	got := w.newEvent("n", uint32(m)).Op
	if got != winActions[a] {
		return fmt.Errorf("FILE_ACTION %d is reported as %s, documented is %s", a, got, winActions[a])
	}
	return nil
}

func checkWinRequest(mask uint64) error {
	got := (&readDirChangesW{}).toWindowsFlags(mask)
	var want uint32
	// needed to observe Write: last-write changes; needed to observe
	// Create/Remove/Rename of entries: file and directory name changes.
	if mask&0x2 != 0 {
		want |= windows.FILE_NOTIFY_CHANGE_LAST_WRITE
	}
	if mask&(0x40|0x80|0x100|0x200) != 0 {
		want |= windows.FILE_NOTIFY_CHANGE_FILE_NAME | windows.FILE_NOTIFY_CHANGE_DIR_NAME
	}
	if got != want {
		return fmt.Errorf("windows: watching mask %#x subscribes to %#x, documented need is %#x", mask, got, want)
	}
	return nil
}

func checkSupports(backend string, f func(fsnotify.Op) bool, ops uint32) error {
	want := ops&^0x1f == 0
	if got := f(fsnotify.Op(ops)); got != want {
		return fmt.Errorf("%s: xSupports(%s)=%v, want %v", backend, fsnotify.Op(ops), got, want)
	}
	return nil
}

func TestC15Windows(t *testing.T) {
	st := engine.StatsFor("C15")
	for m := uint32(0); m < 1<<16; m++ {
		st.Eval()
		if err := checkWinTranslate(m); err != nil {
			fail15(t, c15Replay{Backend: "windows", Kind: "translate", Mask: uint64(m)}, err)
		}
		for _, hi := range []uint64{0, 1 << 32} {
			st.Eval()
			if err := checkWinRequest(uint64(m) | hi); err != nil {
				fail15(t, c15Replay{Backend: "windows", Kind: "request", Mask: uint64(m) | hi}, err)
			}
		}
		if bits.OnesCount32(m&0xfc2) >= 2 {
			st.NonTrivial(fmt.Sprintf("win%x", m), fmt.Sprintf("windows mask %#x -> %s, subscribes %#x", m, (&readDirChangesW{}).newEvent("n", m).Op, (&readDirChangesW{}).toWindowsFlags(uint64(m))))
		}
	}
	for a := uint32(0); a <= 8; a++ {
		st.Eval()
		if err := checkWinAction(a); err != nil {
			fail15(t, c15Replay{Backend: "windows", Kind: "action", Mask: uint64(a)}, err)
		}
	}
	for ops := uint32(0); ops < 1<<9; ops++ {
		st.Eval()
		if err := checkSupports("windows", (&readDirChangesW{}).xSupports, ops); err != nil {
			fail15(t, c15Replay{Backend: "windows", Kind: "supports", Ops: ops}, err)
		}
		if err := checkSupports("fen", (&fen{}).xSupports, ops); err != nil {
			fail15(t, c15Replay{Backend: "fen", Kind: "supports", Ops: ops}, err)
		}
	}
	st.Extra["windows_masks"] = 1 << 16
	st.Extra["windows_actions"] = 9
}

func TestReplayC15Windows(t *testing.T) {
	p := os.Getenv("VERIF_REPLAY")
	if p == "" {
		t.Skip()
	}
	var r c15Replay
	if err := engine.LoadJSON(p, &r); err != nil {
		t.Fatal(err)
	}
	if r.Backend != "windows" && r.Backend != "fen" {
		t.Skip("other backend")
	}
	engine.StatsFor("C15").Eval()
	var err error
	switch r.Kind {
	case "translate":
		err = checkWinTranslate(uint32(r.Mask))
	case "request":
		err = checkWinRequest(r.Mask)
	case "action":
		err = checkWinAction(uint32(r.Mask))
	case "supports":
		if r.Backend == "fen" {
			err = checkSupports("fen", (&fen{}).xSupports, r.Ops)
		} else {
			err = checkSupports("windows", (&readDirChangesW{}).xSupports, r.Ops)
		}
	}
	if err != nil {
		t.Fatalf("property C15 violated (replay %s): %v", p, err)
	}
}
