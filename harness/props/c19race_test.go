package props

import (
	"fmt"
	"os"
	"path/filepath"
	"strings"
	"sync"
	"sync/atomic"
	"testing"
	"time"

	"github.com/fsnotify/fsnotify"

	"verif/harness/engine"
)

// TestC19RenameRace: files are created inside a directory of a recursive tree
// by one goroutine while another renames that directory back and forth. The
// path under which such a Create is reported depends on how far the reader has
// got with the renames, so only this is demanded: every file created is
// reported by exactly one Create event carrying its (unique) base name. A
// Watcher that re-registers the moved directory in a way that makes the
// kernel drop notifications for a moment loses some.
func TestC19RenameRace(t *testing.T) {
	defer engine.Guard()
	st := engine.StatsFor("C19")
	renames := 1500
	if thorough() {
		renames = 12000
	}
	old := fsnotify.VerifSetRecurse(true)
	defer fsnotify.VerifSetRecurse(old)
	root, err := os.MkdirTemp("", "c19race")
	if err != nil {
		engine.ExitInconclusive(err.Error())
	}
	defer os.RemoveAll(root)
	os.MkdirAll(filepath.Join(root, "r", "a"), 0o755)
	os.MkdirAll(filepath.Join(root, "r", "p"), 0o755)
	w, err := engine.NewWatcherRetry(4096)
	if err != nil {
		engine.ExitInconclusive(err.Error())
	}
	defer w.Close()
	if err := w.Add(filepath.Join(root, "r") + "/..."); err != nil {
		engine.ExitInconclusive("recursive Add: " + err.Error())
	}
	creates := map[string]int{}
	var mu sync.Mutex
	recvDone := make(chan struct{})
	go func() {
		defer close(recvDone)
		for {
			select {
			case ev, ok := <-w.Events:
				if !ok {
					return
				}
				if ev.Has(fsnotify.Create) && strings.HasPrefix(filepath.Base(ev.Name), "f-") {
					mu.Lock()
					creates[filepath.Base(ev.Name)]++
					mu.Unlock()
				}
			case _, ok := <-w.Errors:
				if !ok {
					return
				}
			}
		}
	}()
	var stop int32
	var made int64
	var cwg sync.WaitGroup
	for c := 0; c < 4; c++ {
		c := c
		cwg.Add(1)
		go func() { // a creator: wherever the directory currently is
			defer cwg.Done()
			for i := 0; atomic.LoadInt32(&stop) == 0; i++ {
				name := fmt.Sprintf("f-%d-%d", c, i)
				for _, d := range []string{"r/a", "r/p/b"} {
					f, err := os.OpenFile(filepath.Join(root, d, name), os.O_CREATE|os.O_EXCL|os.O_WRONLY, 0o644)
					if err == nil {
						f.Close()
						atomic.AddInt64(&made, 1)
						break
					}
				}
				if c == 0 && i%64 == 63 {
					// keep the tree small: nobody watches for removals here
					ents, _ := os.ReadDir(filepath.Join(root, "r/a"))
					for _, e := range ents {
						os.Remove(filepath.Join(root, "r/a", e.Name()))
					}
					ents, _ = os.ReadDir(filepath.Join(root, "r/p/b"))
					for _, e := range ents {
						os.Remove(filepath.Join(root, "r/p/b", e.Name()))
					}
				}
			}
		}()
	}
	for i := 0; i < renames; i++ {
		if i%2 == 0 {
			os.Rename(filepath.Join(root, "r/a"), filepath.Join(root, "r/p/b"))
		} else {
			os.Rename(filepath.Join(root, "r/p/b"), filepath.Join(root, "r/a"))
		}
		if i%8 == 7 {
			time.Sleep(200 * time.Microsecond) // let the reader catch up now and then
		}
	}
	atomic.StoreInt32(&stop, 1)
	cwg.Wait()
	// everything queued so far precedes this marker
	marker := "f-marker"
	for _, d := range []string{"r/a", "r/p/b"} {
		if f, err := os.OpenFile(filepath.Join(root, d, marker), os.O_CREATE|os.O_EXCL|os.O_WRONLY, 0o644); err == nil {
			f.Close()
			break
		}
	}
	deadline := time.Now().Add(60 * time.Second)
	for {
		mu.Lock()
		got := creates[marker]
		mu.Unlock()
		if got > 0 {
			break
		}
		if time.Now().After(deadline) {
			engine.ExitInconclusive("marker of the rename race not delivered in 60 s")
		}
		time.Sleep(time.Millisecond)
	}
	mu.Lock()
	defer mu.Unlock()
	n := int(atomic.LoadInt64(&made))
	lost, dup := 0, 0
	var sample []string
	// n files were created, each under a name of its own: count what was reported
	reported := 0
	for name, c := range creates {
		if name == marker {
			continue
		}
		reported++
		if c > 1 {
			dup++
			if len(sample) < 5 {
				sample = append(sample, fmt.Sprintf("%s x%d", name, c))
			}
		}
	}
	lost = n - reported
	st.Eval()
	st.AddFeat("rename-race-renames", renames)
	st.AddFeat("rename-race-files-created", n)
	st.NonTrivial("rename-race", fmt.Sprintf("%d renames of a covered directory while %d files were created in it", renames, n))
	if lost > 0 || dup > 0 {
		p := engine.SaveReplay("C19", &engine.Case{Prop: "C19", Recurse: true})
		t.Fatalf("property C19 violated (replay %s): %d files were created inside a directory of the recursive tree while it was renamed %d times; %d of them were never reported, %d were reported more than once %v",
			p, n, renames, lost, dup, sample)
	}
}
