package props

import (
	"testing"

	"verif/harness/engine"
)

func baseCfg() engine.GenCfg {
	return engine.GenCfg{
		MinOps: 5, MaxOps: 40, PBurst: 40, PPlug: 70, MaxBurst: 30, PApi: 10,
		Spellings: true, Shapes: true, Sub: true, Symlinks: true, PMacro: 4,
	}
}

func TestC01(t *testing.T) {
	cfg := baseCfg()
	engine.CheckE1(t, "C01", cfg, func(c *engine.Case, w *engine.World) bool {
		return w.Delivered >= 4 && (f(w, "events-decoded-at-offset>0") >= 2 || f(w, "boundary-name-events") > 0 ||
			f(w, "ops-reported-by-two-watches") > 0 || f(w, "link-or-held-descriptor-ops-with-events") > 0 || f(w, "overwrite-or-multi-watch-renames") > 0)
	})
}
