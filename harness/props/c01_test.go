package props

import (
	"testing"

	"verif/harness/engine"
)

func baseCfg() engine.GenCfg {
	return engine.GenCfg{
		MinOps: 5, MaxOps: 40, PBurst: 40, PPlug: 70, MaxBurst: 30, PApi: 10,
		Spellings: true, Shapes: true, Sub: true, Symlinks: true,
	}
}

func TestC01(t *testing.T) {
	cfg := baseCfg()
	engine.CheckE1(t, "C01", cfg, func(c *engine.Case, w *engine.World) bool {
		return w.Delivered >= 4
	})
}
