package props

import (
	"os"
	"testing"

	"verif/harness/engine"
)

func TestMain(m *testing.M) { engine.Main(m) }

func TestReplay(t *testing.T) {
	p := os.Getenv("VERIF_REPLAY")
	if p == "" {
		t.Skip("no VERIF_REPLAY")
	}
	engine.Replay(t, p)
}
