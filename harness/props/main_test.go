package props

import (
	"os"
	"testing"

	"verif/harness/engine"
)

func TestMain(m *testing.M) { engine.Main(m) }

func TestReplay(t *testing.T) {
	p := os.Getenv("VERIF_REPLAY")
	if p == "" {
		t.Skip("no VERIF_REPLAY")
	}
	var probe map[string]any
	if err := engine.LoadJSON(p, &probe); err == nil {
		if _, ok := probe["steps"]; !ok {
			t.Skip("replay file of another engine")
		}
	}
	engine.Replay(t, p)
}
