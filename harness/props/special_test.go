package props

import (
	"fmt"
	"os"
	"path/filepath"
	"strconv"
	"strings"
	"sync"
	"syscall"
	"testing"
	"time"

	"github.com/fsnotify/fsnotify"
	"pgregory.net/rapid"

	"verif/harness/engine"
)

func thorough() bool { return os.Getenv("VERIF_TIER") == "thorough" }

func envInt(k string, def int) int {
	if v, err := strconv.Atoi(os.Getenv(k)); err == nil {
		return v
	}
	return def
}

// ---- name-length sweep (C01, C08) --------------------------------------------

func nameOfLen(n int, unit string) string {
	var b strings.Builder
	for b.Len()+len(unit) <= n {
		b.WriteString(unit)
	}
	for b.Len() < n {
		b.WriteByte('p')
	}
	return b.String()
}

// sweepCase: entries of drawn lengths 1..255 are created, written and removed
// inside plugged bursts, so every name is decoded at a buffer offset that
// depends on the (varying) lengths of the names before it.
func sweepCase(t *rapid.T, prop string) *engine.Case {
	c := &engine.Case{Prop: prop, Buf: rapid.SampledFrom([]int{-1, 0, 1, 64}).Draw(t, "buf")}
	c.Setup = []engine.Step{{K: engine.KMkdir, P: "d0"}, {K: engine.KSymlink, P: "d0", Q: "ld0"}}
	arg := rapid.SampledFrom([]string{"d0", "./d0", "d0/", "d0//.", engine.AbsRoot + "/d0", "ld0", "./ld0/", "../r/d0"}).Draw(t, "addarg")
	c.Steps = append(c.Steps, engine.Step{K: engine.KAdd, P: engine.P(arg)})
	nb := rapid.IntRange(1, 4).Draw(t, "nbursts")
	seen := map[string]bool{}
	for b := 0; b < nb; b++ {
		c.Steps = append(c.Steps, engine.Step{K: engine.KPlug})
		k := rapid.IntRange(4, 24).Draw(t, "burstlen")
		for i := 0; i < k; i++ {
			n := rapid.IntRange(1, 255).Draw(t, "len")
			if rapid.Bool().Draw(t, "boundary") {
				n = rapid.SampledFrom([]int{1, 15, 16, 17, 31, 32, 33, 47, 48, 49, 63, 64, 65, 127, 128, 129, 239, 240, 241, 254, 255}).Draw(t, "blen")
			}
			unit := rapid.SampledFrom([]string{"x", "ab", "é", "日本", " ", "-", "\xff", "q\x01"}).Draw(t, "unit")
			name := nameOfLen(n, unit)
			if seen[name] {
				continue
			}
			seen[name] = true
			p := engine.P("d0/" + name)
			c.Steps = append(c.Steps, engine.Step{K: engine.KCreate, P: p})
			switch rapid.IntRange(0, 3).Draw(t, "then") {
			case 0:
				c.Steps = append(c.Steps, engine.Step{K: engine.KWrite, P: p, N: 1})
			case 1:
				c.Steps = append(c.Steps, engine.Step{K: engine.KUnlink, P: p})
				delete(seen, name)
			case 2:
				c.Steps = append(c.Steps, engine.Step{K: engine.KChmod, P: p, N: 0o600})
			}
		}
		c.Steps = append(c.Steps, engine.Step{K: engine.KSync})
	}
	return c
}

func sweep(t *testing.T, prop string) {
	owned := engine.Owned[prop]
	lens := map[int]bool{}
	rapid.Check(t, func(rt *rapid.T) {
		c := sweepCase(rt, prop)
		w := engine.Exec(c)
		for _, s := range c.Steps {
			if s.K == engine.KCreate {
				lens[len(filepath.Base(string(s.P)))] = true
			}
		}
		engine.RecordCase(prop, c, w, w.Delivered >= 4)
		if rep := engine.Report(c, w, owned); rep != nil {
			small := engine.Shrink(c, owned, 300)
			if w2, _ := engine.ExecQuiet(small); w2 != nil && engine.Report(small, w2, owned) != nil {
				c, rep = small, engine.Report(small, w2, owned)
			}
			rt.Fatalf("property %s violated (replay %s)\ncase: %s\n%s", prop, engine.SaveReplay(prop, c), c, strings.Join(rep, "\n"))
		}
	})
	engine.StatsFor(prop).Extra["sweep_distinct_name_lengths"] = len(lens)
}

func TestC01Sweep(t *testing.T) { sweep(t, "C01") }
func TestC08Sweep(t *testing.T) { sweep(t, "C08") }

// TestC10Sweep: ordinary activity on entries with names of every length and
// of awkward bytes never puts anything on Errors.
func TestC10Sweep(t *testing.T) { sweep(t, "C10") }

// TestC01Big: bursts of thousands of notifications handled in a few reads.
func TestC01Big(t *testing.T) {
	n := 600
	rounds := 2
	if thorough() {
		n, rounds = 2000, 6
	}
	for r := 0; r < rounds; r++ {
		c := &engine.Case{Prop: "C01", Buf: []int{0, 64, -1}[r%3]}
		c.Setup = []engine.Step{{K: engine.KMkdir, P: "d0"}, {K: engine.KMkdir, P: "d1"}}
		c.Steps = []engine.Step{{K: engine.KAdd, P: "d0"}, {K: engine.KAdd, P: "./d1/"}, {K: engine.KPlug}}
		for i := 0; i < n; i++ {
			d := []string{"d0", "d1"}[i%2]
			p := engine.P(fmt.Sprintf("%s/%s%d", d, strings.Repeat("n", (i*7+r)%40+1), i))
			c.Steps = append(c.Steps, engine.Step{K: engine.KCreate, P: p})
			if i%3 == 0 {
				c.Steps = append(c.Steps, engine.Step{K: engine.KWrite, P: p, N: 1})
			}
			if i%5 == 0 {
				c.Steps = append(c.Steps, engine.Step{K: engine.KUnlink, P: p})
			}
		}
		c.Steps = append(c.Steps, engine.Step{K: engine.KSync}, engine.Step{K: engine.KList})
		w := engine.Exec(c)
		engine.RecordCase("C01", &engine.Case{Prop: "C01", Buf: c.Buf, Steps: c.Steps[:6]}, w, true)
		engine.StatsFor("C01").AddFeat("big-burst-events", w.Delivered)
		if rep := engine.Report(c, w, engine.Owned["C01"]); rep != nil {
			t.Fatalf("property C01 violated (replay %s)\nburst of %d ops\n%s", engine.SaveReplay("C01", c), n, strings.Join(rep, "\n")[:2000])
		}
	}
}

// TestC01FullBuffer: more than one read buffer full of name-less 16-byte
// records (changes to watched files themselves), so that records end exactly
// at the end of the 64 KiB buffer.
func TestC01FullBuffer(t *testing.T) {
	n := 4096*2 + 700
	c := &engine.Case{Prop: "C01", Buf: 0}
	c.Setup = []engine.Step{{K: engine.KMkdir, P: "d0"}, {K: engine.KCreate, P: "d0/fa"}, {K: engine.KCreate, P: "d0/fb"}}
	c.Steps = []engine.Step{{K: engine.KAdd, P: "d0/fa"}, {K: engine.KAdd, P: "./d0/fb"}, {K: engine.KPlug}}
	for i := 0; i < n; i++ {
		p := engine.P([]string{"d0/fa", "d0/fb"}[i%2])
		c.Steps = append(c.Steps, engine.Step{K: engine.KChmod, P: p, N: 0o600 + (i/2%2)*0o44})
	}
	// the watch-ending record of fa is somewhere in the third read
	c.Steps = append(c.Steps, engine.Step{K: engine.KRename, P: "d0/fa", Q: "d0/fc"}, engine.Step{K: engine.KChmod, P: "d0/fb", N: 0o600}, engine.Step{K: engine.KSync}, engine.Step{K: engine.KList}, engine.Step{K: engine.KFdchk})
	w := engine.Exec(c)
	engine.RecordCase("C01", &engine.Case{Prop: "C01", Buf: c.Buf, Steps: c.Steps[:8]}, w, true)
	engine.StatsFor("C01").AddFeat("full-buffer-nameless-events", w.Delivered)
	if rep := engine.Report(c, w, map[string]bool{engine.FMissing: true, engine.FWedge: true, engine.FClosed: true, engine.FList: true, engine.FMarks: true}); rep != nil {
		msg := strings.Join(rep, "\n")
		if len(msg) > 3000 {
			msg = msg[:3000]
		}
		t.Fatalf("property C01 violated (replay %s)\n%d name-less records in one burst\n%s", engine.SaveReplay("C01", c), n, msg)
	}
}

// fullBufferNamed: a plugged burst of creations whose records (16-byte header
// + name padded to 16 bytes) fill the 64 KiB read buffer exactly: 2048 records
// per read, the last one ending at byte 65536. Two rounds with the first
// record shifted by one name-less record, so that a boundary is also met in the
// middle of a name field.
func fullBufferNamed(t *testing.T, prop string) {
	for round := 0; round < 2; round++ {
		c := &engine.Case{Prop: prop, Buf: 0}
		c.Setup = []engine.Step{{K: engine.KMkdir, P: "d0"}, {K: engine.KCreate, P: "d0/self"}}
		c.Steps = []engine.Step{{K: engine.KAdd, P: engine.P([]string{"d0", "./d0/"}[round])}, {K: engine.KAdd, P: "d0/self"}, {K: engine.KPlug}}
		if round == 1 {
			c.Steps = append(c.Steps, engine.Step{K: engine.KChmod, P: "d0/self", N: 0o600}) // one 16-byte record first
		}
		for i := 0; i < 2048*2+100; i++ {
			c.Steps = append(c.Steps, engine.Step{K: engine.KCreate, P: engine.P(fmt.Sprintf("d0/f%05d", i))})
		}
		c.Steps = append(c.Steps, engine.Step{K: engine.KSync}, engine.Step{K: engine.KList})
		w := engine.Exec(c)
		engine.RecordCase(prop, &engine.Case{Prop: prop, Buf: c.Buf, Steps: c.Steps[:8]}, w, true)
		engine.StatsFor(prop).AddFeat("full-buffer-named-events", w.Delivered)
		if rep := engine.Report(c, w, engine.Owned[prop]); rep != nil {
			msg := strings.Join(rep, "\n")
			if len(msg) > 3000 {
				msg = msg[:3000]
			}
			t.Fatalf("property %s violated (replay %s)\nburst of 32-byte records filling the read buffer exactly\n%s", prop, engine.SaveReplay(prop, c), msg)
		}
	}
}

// straddle: the two halves of a move fall into different reads - the
// IN_MOVED_FROM is the last record that fits into the 64 KiB buffer (or the
// one before / after it), the IN_MOVED_TO opens the next read. The Create must
// still name the old name.
func straddle(t *testing.T, prop string) {
	for _, before := range []int{2046, 2047, 2048} {
		c := &engine.Case{Prop: prop, Buf: 0}
		c.Setup = []engine.Step{{K: engine.KMkdir, P: "d0"}, {K: engine.KMkdir, P: "d1"}, {K: engine.KCreate, P: "d0/m00000"}}
		c.Steps = []engine.Step{{K: engine.KAdd, P: "d0"}, {K: engine.KAdd, P: "d1"}, {K: engine.KPlug}}
		for i := 0; i < before; i++ {
			c.Steps = append(c.Steps, engine.Step{K: engine.KCreate, P: engine.P(fmt.Sprintf("d0/f%05d", i))})
		}
		c.Steps = append(c.Steps, engine.Step{K: engine.KRename, P: "d0/m00000", Q: "d1/n00000"}, engine.Step{K: engine.KCreate, P: "d1/after"},
			engine.Step{K: engine.KSync}, engine.Step{K: engine.KList})
		w := engine.Exec(c)
		engine.RecordCase(prop, &engine.Case{Prop: prop, Buf: c.Buf, Steps: append(append([]engine.Step(nil), c.Steps[:5]...), c.Steps[len(c.Steps)-4:]...)}, w, true)
		engine.StatsFor(prop).AddFeat("moves-straddling-two-reads", 1)
		if rep := engine.Report(c, w, engine.Owned[prop]); rep != nil {
			msg := strings.Join(rep, "\n")
			if len(msg) > 3000 {
				msg = msg[:3000]
			}
			t.Fatalf("property %s violated (replay %s)\n%d creations, then a move whose halves fall into different reads\n%s", prop, engine.SaveReplay(prop, c), before, msg)
		}
	}
}

func TestC11Straddle(t *testing.T) { straddle(t, "C11") }
func TestC14Straddle(t *testing.T) { straddle(t, "C14") }

func TestC01FullBufferNamed(t *testing.T) { fullBufferNamed(t, "C01") }
func TestC08FullBufferNamed(t *testing.T) { fullBufferNamed(t, "C08") }

func TestC01Overflow(t *testing.T) { overflowTest(t, "C01") }

// ring: more than ten moves out of watched territory leave unmatched rename
// cookies behind; then moves in from outside, moves within and between watched
// directories, and ordinary changes. Every event must still arrive (C01), a
// move in from outside never carries an old name, a move between covered names
// always does (C11).
func ringTest(t *testing.T, prop string) {
	for _, nout := range []int{9, 10, 11, 19, 20, 21, 30} {
		for _, plug := range []bool{false, true} {
			c := &engine.Case{Prop: prop, Buf: []int{-1, 0, 64}[nout%3]}
			c.Setup = []engine.Step{{K: engine.KMkdir, P: "d0"}, {K: engine.KMkdir, P: "d1"}, {K: engine.KMkdir, P: "u"}, {K: engine.KCreate, P: "u/in0"}, {K: engine.KCreate, P: "u/in1"}}
			c.Steps = []engine.Step{{K: engine.KAdd, P: "d0"}, {K: engine.KAdd, P: "./d1/"}}
			if plug {
				c.Steps = append(c.Steps, engine.Step{K: engine.KPlug})
			}
			for i := 0; i < nout; i++ {
				f := engine.P(fmt.Sprintf("d0/o%d", i))
				c.Steps = append(c.Steps, engine.Step{K: engine.KCreate, P: f}, engine.Step{K: engine.KRename, P: f, Q: engine.P(fmt.Sprintf("u/o%d", i))})
				if !plug {
					c.Steps = append(c.Steps, engine.Step{K: engine.KSync})
				}
			}
			c.Steps = append(c.Steps,
				engine.Step{K: engine.KRename, P: "u/in0", Q: "d0/in0"},    // in from outside: no old name
				engine.Step{K: engine.KRename, P: "d0/in0", Q: "d1/moved"}, // between covered names: old name
				engine.Step{K: engine.KRename, P: "d1/moved", Q: "d1/moved2"},
				engine.Step{K: engine.KRename, P: "u/in1", Q: "d1/in1"},
				engine.Step{K: engine.KWrite, P: "d1/moved2", N: 1}, engine.Step{K: engine.KSync}, engine.Step{K: engine.KList})
			w := engine.Exec(c)
			engine.RecordCase(prop, c, w, true)
			engine.StatsFor(prop).AddFeat("ring-cases", 1)
			owned := map[string]bool{engine.FFrom: true, engine.FWedge: true}
			if prop == "C01" {
				owned = map[string]bool{engine.FMissing: true, engine.FWedge: true, engine.FClosed: true}
			}
			if rep := engine.Report(c, w, owned); rep != nil {
				t.Fatalf("property %s violated (replay %s)\ncase: %s\n%s", prop, engine.SaveReplay(prop, c), c, strings.Join(rep, "\n"))
			}
		}
	}
}

func TestC01Ring(t *testing.T) { ringTest(t, "C01") }
func TestC11Ring(t *testing.T) { ringTest(t, "C11") }

// ---- C10: kernel queue overflow ------------------------------------------------

func TestC10Overflow(t *testing.T) { overflowTest(t, "C10") }

func overflowTest(t *testing.T, prop string) {
	rounds := 1
	if thorough() {
		rounds = 10
	}
	seed := envInt("VERIF_SEED_EFF", 1)
	for r := 0; r < rounds; r++ {
		extra := 1 + (seed*7919+r*2713)%20000
		c := &engine.Case{Prop: prop, Buf: []int{0, 8, -1, 4096}[(seed+r)%4]}
		c.Setup = []engine.Step{{K: engine.KMkdir, P: "d0"}, {K: engine.KMkdir, P: "d1"}, {K: engine.KMkdir, P: "fresh"}, {K: engine.KCreate, P: "d0/f"}}
		c.Steps = []engine.Step{
			{K: engine.KAdd, P: "d0"}, {K: engine.KAdd, P: "d1"},
			{K: engine.KCreate, P: "d1/before"}, {K: engine.KSync},
			{K: engine.KOverflow, P: "d0", N: engine.MaxQueuedEvents() + extra},
			// the Watcher survives: events keep flowing (exact oracle) and Add/Remove work
			{K: engine.KCreate, P: "d0/after"}, {K: engine.KWrite, P: "d0/after", N: 3}, {K: engine.KSync},
			{K: engine.KRename, P: "d0/after", Q: "d1/after2"}, {K: engine.KSync},
			{K: engine.KAdd, P: "fresh"}, {K: engine.KCreate, P: "fresh/x"}, {K: engine.KSync},
			{K: engine.KRemove, P: "fresh"}, {K: engine.KCreate, P: "fresh/y"}, {K: engine.KSync},
			{K: engine.KList}, {K: engine.KFdchk},
		}
		if prop == "C10" {
			// a second overflow on the same Watcher is announced again
			c.Steps = append(c.Steps, engine.Step{K: engine.KOverflow, P: "d1", N: engine.MaxQueuedEvents() + 1 + extra%977},
				engine.Step{K: engine.KCreate, P: "d1/after-second"}, engine.Step{K: engine.KSync}, engine.Step{K: engine.KList})
		}
		w := engine.Exec(c)
		engine.RecordCase(prop, c, w, true)
		owned := map[string]bool{engine.FErrors: true, engine.FMissing: true, engine.FExtra: true, engine.FAddErr: true, engine.FRmErr: true, engine.FWedge: true, engine.FList: true, engine.FClosed: true}
		if prop == "C01" { // the only permitted loss is the overflow itself, and it is announced
			owned = map[string]bool{engine.FMissing: true, engine.FWedge: true, engine.FClosed: true, engine.FErrors: true}
		}
		if rep := engine.Report(c, w, owned); rep != nil {
			t.Fatalf("property %s violated (replay %s)\ncase: %s\n%s", prop, engine.SaveReplay(prop, c), c, strings.Join(rep, "\n"))
		}
	}
}

// ---- C11: moves by several threads at once ---------------------------------------

type mv struct{ from, to string }

func TestC11Threads(t *testing.T) {
	st := engine.StatsFor("C11")
	rapid.Check(t, func(rt *rapid.T) {
		defer engine.Guard()
		ng := rapid.IntRange(2, 8).Draw(rt, "threads")
		nm := rapid.IntRange(3, 25).Draw(rt, "moves")
		buf := rapid.SampledFrom([]int{-1, 0, 16, 4096}).Draw(rt, "buf")
		// programme of every thread, drawn up front
		progs := make([][]mv, ng)
		dirs := []string{"d0", "d1", "u"}
		for g := 0; g < ng; g++ {
			cur := fmt.Sprintf("%s/t%d-0", rapid.SampledFrom(dirs).Draw(rt, "start"), g)
			progs[g] = append(progs[g], mv{"", cur}) // creation
			for i := 1; i <= nm; i++ {
				next := fmt.Sprintf("%s/t%d-%d", rapid.SampledFrom(dirs).Draw(rt, "dir"), g, i)
				progs[g] = append(progs[g], mv{cur, next})
				cur = next
			}
		}
		c := &engine.Case{Prop: "C11", Buf: buf, Setup: []engine.Step{{K: engine.KMkdir, P: "d0"}, {K: engine.KMkdir, P: "d1"}, {K: engine.KMkdir, P: "u"}}}
		w, err := engine.NewWorld(c)
		if err != nil {
			engine.ExitInconclusive(err.Error())
		}
		defer w.Destroy()
		w.W.Add("d0")
		w.W.Add("./d1")
		covered := func(p string) bool { return strings.HasPrefix(p, "d0/") || strings.HasPrefix(p, "d1/") }
		var evs []fsnotify.Event
		var errs []error
		done := make(chan struct{})
		stop := make(chan struct{})
		go func() {
			defer close(done)
			for {
				select {
				case e, ok := <-w.W.Events:
					if !ok {
						return
					}
					evs = append(evs, e)
				case e, ok := <-w.W.Errors:
					if ok {
						errs = append(errs, e)
					}
				case <-stop:
					return
				}
			}
		}()
		var wg sync.WaitGroup
		start := make(chan struct{})
		for g := 0; g < ng; g++ {
			g := g
			wg.Add(1)
			go func() {
				defer wg.Done()
				<-start
				for _, m := range progs[g] {
					if m.from == "" {
						os.WriteFile(m.to, nil, 0o644)
					} else {
						os.Rename(m.from, m.to)
					}
				}
			}()
		}
		close(start)
		wg.Wait()
		// sentinel: a last create in d0, wait until it is delivered
		os.WriteFile("d0/zz-sentinel", nil, 0o644)
		deadline := time.After(engine.SyncTimeout)
	wait:
		for {
			select {
			case <-deadline:
				engine.ExitInconclusive("C11 threads: sentinel not delivered")
			default:
			}
			time.Sleep(200 * time.Microsecond)
			q, _ := engine.Fionread(w.Wfd)
			if q == 0 && len(w.W.Events) == 0 {
				// the collector appends from another goroutine; give it the last word
				time.Sleep(2 * time.Millisecond)
				break wait
			}
		}
		close(stop)
		<-done
		// oracle: the harness knows every rename it performed; names are unique
		byDst := map[string]mv{}
		bySrc := map[string]mv{}
		for _, p := range progs {
			for _, m := range p {
				byDst[m.to] = m
				if m.from != "" {
					bySrc[m.from] = m
				}
			}
		}
		interleaved := 0
		for i, e := range evs {
			if strings.HasSuffix(e.Name, "zz-sentinel") {
				continue
			}
			if e.Has(fsnotify.Create) {
				m, ok := byDst[e.Name]
				if !ok {
					rt.Fatalf("property C11 violated: Create for %q, which no thread created or moved to", e.Name)
				}
				want := ""
				if m.from != "" && covered(m.from) {
					want = m.from
				}
				if got := fsnotify.VerifRenamedFrom(e); got != want {
					p := engine.SaveReplay("C11", c)
					rt.Fatalf("property C11 violated (replay %s): %d threads x %d moves: Create %q carries old name %q, the move that produced it came from %q (covered=%v)\nevent %d of %d: %s", p, ng, nm, e.Name, got, m.from, covered(m.from), i, len(evs), e)
				}
				if want != "" {
					if !strings.HasSuffix(e.String(), fmt.Sprintf("%q ← %q", e.Name, want)) {
						rt.Fatalf("property C11 violated: Event.String()=%q does not render new ← old", e.String())
					}
					if i == 0 || evs[i-1].Name != want {
						interleaved++
					}
				}
			}
			if e.Has(fsnotify.Rename) {
				if _, ok := bySrc[e.Name]; !ok {
					rt.Fatalf("property C11 violated: Rename for %q, which no thread moved", e.Name)
				}
			}
		}
		if len(errs) > 0 {
			rt.Fatalf("property C10 side condition: errors during threaded moves: %v", errs)
		}
		st.Eval()
		st.AddFeat("threaded-cases", 1)
		st.AddFeat("threaded-moves-whose-halves-were-separated-by-other-events", interleaved)
		if interleaved > 0 || nm > 10 {
			st.NonTrivial(fmt.Sprintf("thr%d-%d-%d", ng, nm, interleaved), fmt.Sprintf("%d threads x %d moves over d0,d1 (watched) and u (unwatched), buf=%d: %d events, %d moves had other events between their two halves", ng, nm, buf, len(evs), interleaved))
		}
	})
}

// ---- C04: bounded-exhaustive Add/Remove/mutation sequences ------------------------

type sym struct {
	name  string
	steps []engine.Step
}

func c04Alphabet() ([]sym, []engine.Step) {
	setup := []engine.Step{
		{K: engine.KMkdir, P: "d"}, {K: engine.KCreate, P: "d/F"}, {K: engine.KMkdir, P: "d/D"}, {K: engine.KCreate, P: "d/G"},
		{K: engine.KSymlink, P: "F", Q: "d/LF"}, {K: engine.KSymlink, P: "D", Q: "d/LD"}, {K: engine.KLink, P: "d/F", Q: "d/H"},
		{K: engine.KSymlink, P: "loopB", Q: "d/loopA"}, {K: engine.KSymlink, P: "loopA", Q: "d/loopB"},
	}
	paths := []string{"d/F", "d/D", "d/LF", "d/LD", "d/H", "d/G", "d/M", "d/F/x", "d/loopA", "d/" + strings.Repeat("L", 300)}
	var a []sym
	for _, p := range paths {
		a = append(a, sym{"add " + p[:min(len(p), 12)], []engine.Step{{K: engine.KAdd, P: engine.P(p)}}})
		a = append(a, sym{"remove " + p[:min(len(p), 12)], []engine.Step{{K: engine.KRemove, P: engine.P(p)}}})
	}
	a = append(a,
		sym{"rm F", []engine.Step{{K: engine.KUnlink, P: "d/F"}}},
		sym{"recreate F", []engine.Step{{K: engine.KCreate, P: "d/F"}}},
		sym{"mv F F2", []engine.Step{{K: engine.KRename, P: "d/F", Q: "d/F2"}}},
		sym{"mv G F", []engine.Step{{K: engine.KRename, P: "d/G", Q: "d/F"}}},
		sym{"retarget LF->G", []engine.Step{{K: engine.KUnlink, P: "d/LF"}, {K: engine.KSymlink, P: "G", Q: "d/LF"}}},
		sym{"F := hardlink of G", []engine.Step{{K: engine.KUnlink, P: "d/F"}, {K: engine.KLink, P: "d/G", Q: "d/F"}}},
		sym{"rmdir D", []engine.Step{{K: engine.KRmdir, P: "d/D"}}},
		sym{"recreate D", []engine.Step{{K: engine.KMkdir, P: "d/D"}}},
	)
	return a, setup
}

func min(a, b int) int {
	if a < b {
		return a
	}
	return b
}

var spellFns = []func(string) string{
	func(p string) string { return p },
	func(p string) string { return "./" + p },
	func(p string) string { return p + "/" },
	func(p string) string { return strings.Replace(p, "/", "//", 1) },
	func(p string) string { return "d/../" + p },
	func(p string) string { return engine.AbsRoot + "/" + p },
	func(p string) string { return p + "/." },
}

func TestC04Exhaustive(t *testing.T) {
	alpha, setup := c04Alphabet()
	depth := 2
	if thorough() {
		depth = 3
	}
	shard, nshards := envInt("VERIF_SHARD", 0), envInt("VERIF_NSHARDS", 1)
	seed := envInt("VERIF_SEED_EFF", 1)
	owned := engine.Owned["C04"]
	st := engine.StatsFor("C04")
	idx := 0
	var rec func(seq []int)
	run := func(seq []int) {
		idx++
		if idx%nshards != shard%nshards {
			return
		}
		c := &engine.Case{Prop: "C04", Buf: 0, Setup: setup}
		var names []string
		for pos, s := range seq {
			names = append(names, alpha[s].name)
			for _, stp := range alpha[s].steps {
				if stp.K == engine.KAdd || stp.K == engine.KRemove {
					// spelling drawn per occurrence: a fixed function of seed, sequence and position
					h := (seed*1000003 + idx*31 + pos*7 + s) % len(spellFns)
					sp := spellFns[h](string(stp.P))
					if stp.K == engine.KRemove && h == 5 {
						sp = string(stp.P) // Remove is by cleaned spelling; keep mostly matching ones
					}
					stp.P = engine.P(sp)
				}
				c.Steps = append(c.Steps, stp)
			}
			c.Steps = append(c.Steps, engine.Step{K: engine.KList})
		}
		// final probe: touch everything that may be watched, no duplicate or missing event
		c.Steps = append(c.Steps, engine.Step{K: engine.KChmod, P: "d/F", N: 0o600}, engine.Step{K: engine.KSync},
			engine.Step{K: engine.KChmod, P: "d/G", N: 0o600}, engine.Step{K: engine.KSync},
			engine.Step{K: engine.KCreate, P: "d/D/probe"}, engine.Step{K: engine.KSync}, engine.Step{K: engine.KList})
		w := engine.Exec(c)
		nt := w.Feat["add-new"] > 0 && (w.Feat["add-alias"] > 0 || w.Feat["add-fail"] > 0 || w.Feat["remove-unlisted"] > 0 || w.Feat["add-repoint"] > 0 || w.Feat["add-repoint-onto-watched"] > 0)
		engine.RecordCase("C04", c, w, false)
		if nt {
			st.NonTrivial(strings.Join(names, ";"), "exhaustive sequence: "+strings.Join(names, " ; "))
		}
		all := map[string]bool{}
		for k := range owned {
			all[k] = true
		}
		all[engine.FMissing], all[engine.FExtra] = true, true // the duplicate-event probe
		if rep := engine.Report(c, w, all); rep != nil {
			t.Fatalf("property C04 violated (replay %s)\nsequence: %s\ncase: %s\n%s", engine.SaveReplay("C04", c), strings.Join(names, " ; "), c, strings.Join(rep, "\n"))
		}
	}
	rec = func(seq []int) {
		if len(seq) > 0 {
			run(seq)
		}
		if len(seq) == depth {
			return
		}
		for i := range alpha {
			rec(append(seq[:len(seq):len(seq)], i))
		}
	}
	rec(nil)
	st.Extra["exhaustive_sequence_depth"] = depth
	st.Extra["exhaustive_alphabet_size"] = len(alpha)
	st.Extra["exhaustive_sequences_total"] = idx
}

// ---- C12: soak ------------------------------------------------------------------

func TestC12Soak(t *testing.T) {
	cycles := 150
	if thorough() {
		cycles = 2000
	}
	c := &engine.Case{Prop: "C12", Buf: 0}
	c.Setup = []engine.Step{{K: engine.KMkdir, P: "d0"}, {K: engine.KMkdir, P: "u"}, {K: engine.KCreate, P: "d0/f"}, {K: engine.KCreate, P: "d0/g"}}
	c.Steps = []engine.Step{{K: engine.KAdd, P: "d0"}, {K: engine.KFdchk}}
	for i := 0; i < cycles; i++ {
		switch i % 5 {
		case 4: // the path stays listed while it is replaced and re-added several times in a
			// row, every old inode kept alive (hard link, then open descriptor)
			c.Steps = append(c.Steps, engine.Step{K: engine.KCreate, P: "d0/h"}, engine.Step{K: engine.KAdd, P: "d0/h"})
			for j := 0; j < 3; j++ {
				keep := engine.P(fmt.Sprintf("u/keep-h%d", j))
				if j%2 == 0 {
					c.Steps = append(c.Steps, engine.Step{K: engine.KLink, P: "d0/h", Q: keep})
				} else {
					c.Steps = append(c.Steps, engine.Step{K: engine.KHold, P: "d0/h", N: 1})
				}
				c.Steps = append(c.Steps, engine.Step{K: engine.KUnlink, P: "d0/h"}, engine.Step{K: engine.KCreate, P: "d0/h"},
					engine.Step{K: engine.KAdd, P: "d0/h"}, engine.Step{K: engine.KFdchk}, engine.Step{K: engine.KWrite, P: "d0/h", N: 1})
				if j%2 == 0 {
					c.Steps = append(c.Steps, engine.Step{K: engine.KUnlink, P: keep})
				} else {
					c.Steps = append(c.Steps, engine.Step{K: engine.KRelease, N: 1})
				}
			}
			c.Steps = append(c.Steps, engine.Step{K: engine.KRemove, P: "d0/h"}, engine.Step{K: engine.KUnlink, P: "d0/h"})
		case 0: // re-add of a path whose old inode is kept alive by a hard link
			c.Steps = append(c.Steps, engine.Step{K: engine.KAdd, P: "d0/f"}, engine.Step{K: engine.KLink, P: "d0/f", Q: "u/keep"}, engine.Step{K: engine.KUnlink, P: "d0/f"},
				engine.Step{K: engine.KCreate, P: "d0/f"}, engine.Step{K: engine.KAdd, P: "./d0/f"}, engine.Step{K: engine.KRemove, P: "d0/f"}, engine.Step{K: engine.KUnlink, P: "u/keep"})
		case 1: // old inode kept alive by an open descriptor
			c.Steps = append(c.Steps, engine.Step{K: engine.KAdd, P: "d0/g"}, engine.Step{K: engine.KHold, P: "d0/g", N: 0}, engine.Step{K: engine.KUnlink, P: "d0/g"},
				engine.Step{K: engine.KCreate, P: "d0/g"}, engine.Step{K: engine.KAdd, P: "d0/g"}, engine.Step{K: engine.KRelease, N: 0}, engine.Step{K: engine.KRemove, P: "d0/g"})
		case 2: // rename away and back
			c.Steps = append(c.Steps, engine.Step{K: engine.KAdd, P: "d0/f"}, engine.Step{K: engine.KRename, P: "d0/f", Q: "u/f"}, engine.Step{K: engine.KRename, P: "u/f", Q: "d0/f"},
				engine.Step{K: engine.KAdd, P: "d0/f"}, engine.Step{K: engine.KRemove, P: "d0/f"})
		default: // directory deleted and recreated
			c.Steps = append(c.Steps, engine.Step{K: engine.KMkdir, P: "d0/sub"}, engine.Step{K: engine.KAdd, P: "d0/sub"}, engine.Step{K: engine.KRmdir, P: "d0/sub"},
				engine.Step{K: engine.KMkdir, P: "d0/sub"}, engine.Step{K: engine.KAdd, P: "d0/sub/"}, engine.Step{K: engine.KRmdir, P: "d0/sub"})
		}
		c.Steps = append(c.Steps, engine.Step{K: engine.KFdchk})
	}
	c.Steps = append(c.Steps, engine.Step{K: engine.KList})
	w := engine.Exec(c)
	engine.RecordCase("C12", &engine.Case{Prop: "C12", Steps: c.Steps[:30]}, w, true)
	engine.StatsFor("C12").Extra["soak_cycles"] = cycles
	if rep := engine.Report(c, w, engine.Owned["C12"]); rep != nil {
		t.Fatalf("property C12 violated (replay %s)\nsoak of %d cycles\n%s", engine.SaveReplay("C12", c), cycles, strings.Join(rep, "\n"))
	}
	if w.Failed() {
		t.Logf("other findings during the soak: %v", w.Findings)
	}
}

// ---- C02: unmount -------------------------------------------------------------

// TestC02Umount: a watched tmpfs is unmounted; IN_UNMOUNT / IN_IGNORED must not
// surface, the watches end, nothing is reported for the directory underneath,
// and the paths can be added again. Needs CAP_SYS_ADMIN; skipped (and counted
// as skipped) where mount(2) is not permitted.
func TestC02Umount(t *testing.T) {
	st := engine.StatsFor("C02")
	probe, err := os.MkdirTemp("", "mnt")
	if err == nil {
		err = syscall.Mount("tmpfs", probe, "tmpfs", 0, "size=1m")
		if err == nil {
			syscall.Unmount(probe, 0)
		}
		os.Remove(probe)
	}
	if err != nil {
		st.Extra["umount_part"] = "skipped: mount(2) not permitted here: " + err.Error()
		t.Skip("mount not permitted")
	}
	rapid.Check(t, func(rt *rapid.T) {
		c := &engine.Case{Prop: "C02", Buf: rapid.SampledFrom([]int{-1, 0, 8}).Draw(rt, "buf")}
		c.Setup = []engine.Step{{K: engine.KMkdir, P: "d0"}, {K: engine.KMkdir, P: "m"}, {K: engine.KCreate, P: "m/under"}}
		c.Steps = []engine.Step{{K: engine.KAdd, P: "d0"}, {K: engine.KMount, P: "m"}, {K: engine.KCreate, P: "m/f"}, {K: engine.KMkdir, P: "m/sub"}}
		watchFile := rapid.Bool().Draw(rt, "watchfile")
		watchSub := rapid.Bool().Draw(rt, "watchsub")
		c.Steps = append(c.Steps, engine.Step{K: engine.KAdd, P: engine.P(rapid.SampledFrom([]string{"m", "./m/", engine.AbsRoot + "/m"}).Draw(rt, "marg"))})
		if watchFile {
			c.Steps = append(c.Steps, engine.Step{K: engine.KAdd, P: "m/f"})
		}
		if watchSub {
			c.Steps = append(c.Steps, engine.Step{K: engine.KAdd, P: "m/sub"})
		}
		if rapid.Bool().Draw(rt, "plug") {
			c.Steps = append(c.Steps, engine.Step{K: engine.KPlug})
		}
		n := rapid.IntRange(0, 5).Draw(rt, "before")
		for i := 0; i < n; i++ {
			p := engine.P(rapid.SampledFrom([]string{"m/f", "m/g", "m/sub/x", "d0/y"}).Draw(rt, "p"))
			switch rapid.IntRange(0, 2).Draw(rt, "k") {
			case 0:
				c.Steps = append(c.Steps, engine.Step{K: engine.KCreate, P: p})
			case 1:
				c.Steps = append(c.Steps, engine.Step{K: engine.KWrite, P: p, N: 1})
			default:
				c.Steps = append(c.Steps, engine.Step{K: engine.KChmod, P: p, N: 0o600})
			}
		}
		c.Steps = append(c.Steps, engine.Step{K: engine.KUmount, P: "m"}, engine.Step{K: engine.KSync}, engine.Step{K: engine.KList},
			// the directory underneath is not watched: nothing may be reported for it
			engine.Step{K: engine.KWrite, P: "m/under", N: 1}, engine.Step{K: engine.KCreate, P: "m/new"}, engine.Step{K: engine.KCreate, P: "d0/z"}, engine.Step{K: engine.KSync},
			engine.Step{K: engine.KAdd, P: "m"}, engine.Step{K: engine.KCreate, P: "m/again"}, engine.Step{K: engine.KSync}, engine.Step{K: engine.KList}, engine.Step{K: engine.KFdchk})
		w := engine.Exec(c)
		engine.RecordCase("C02", c, w, true)
		st.AddFeat("umount-cases", 1)
		owned := map[string]bool{engine.FExtra: true, engine.FOpZero: true, engine.FList: true, engine.FErrors: true, engine.FMarks: true, engine.FTables: true, engine.FMissing: true, engine.FWedge: true}
		if rep := engine.Report(c, w, owned); rep != nil {
			rt.Fatalf("property C02 violated (replay %s)\ncase: %s\n%s", engine.SaveReplay("C02", c), c, strings.Join(rep, "\n"))
		}
	})
}
