package props

import (
	"strings"
	"testing"

	"pgregory.net/rapid"

	"verif/harness/engine"
)

// lifecycle emphasis: few names, files watched, delete/recreate/link/hold heavy.
func lifeCfg() engine.GenCfg {
	cfg := baseCfg()
	cfg.MaxNames = 3
	cfg.Shapes = false
	cfg.WatchFiles = 65
	cfg.PApi = 35
	cfg.PAddAgain = 55
	cfg.MaxBurst = 8
	cfg.PMacro = 12
	cfg.W = map[string]int{
		engine.KCreate: 14, engine.KWrite: 5, engine.KChmod: 3, engine.KUnlink: 14, engine.KMkdir: 2, engine.KRmdir: 2,
		engine.KRename: 12, engine.KLink: 8, engine.KSymlink: 4, engine.KHold: 6, engine.KRelease: 4, engine.KRmr: 1, engine.KTrunc: 1,
	}
	return cfg
}

func f(w *engine.World, k string) int { return w.Feat[k] }

func TestC02(t *testing.T) {
	cfg := baseCfg()
	cfg.PRemoveNow = 35
	cfg.PApi = 15
	engine.CheckE1(t, "C02", cfg, func(c *engine.Case, w *engine.World) bool {
		return w.Delivered >= 3 && (f(w, "silent-ops") > 0 || f(w, "remove-inside-burst") > 0 || f(w, "housekeeping-only-ops") > 0)
	})
}

func TestC03(t *testing.T) {
	cfg := baseCfg()
	cfg.Bufs = []int{0, 1, 2, 7, 64, 4096}
	cfg.PPause = 1
	cfg.MaxAdds = 6
	cfg.MaxNames = 4
	// incarnations: a watched entry of a watched directory is replaced while its
	// old inode lives on (hard link, open descriptor), then both are changed
	cfg.WatchFiles = 45
	cfg.PMacro = 18
	cfg.W = map[string]int{
		engine.KCreate: 14, engine.KWrite: 12, engine.KChmod: 8, engine.KUnlink: 10, engine.KRename: 18, engine.KMkdir: 2, engine.KRmdir: 1,
		engine.KTrunc: 3, engine.KLink: 5, engine.KHold: 4, engine.KRelease: 3,
	}
	engine.CheckE1(t, "C03", cfg, func(c *engine.Case, w *engine.World) bool {
		return len(w.EvDirs) >= 2 && w.Delivered >= 6 && (w.M.NCookiePairs > 0 || f(w, "renames-with-events") > 0)
	})
}

func TestC04(t *testing.T) {
	cfg := lifeCfg()
	cfg.PApi = 50
	cfg.ListEvery = true
	engine.CheckE1(t, "C04", cfg, func(c *engine.Case, w *engine.World) bool {
		return f(w, "add-new") > 0 && (f(w, "add-alias") > 0 || f(w, "add-fail") > 0 || f(w, "remove-unlisted") > 0 ||
			f(w, "add-repoint") > 0 || f(w, "add-repoint-onto-watched") > 0)
	})
}

func TestC08(t *testing.T) {
	cfg := baseCfg()
	cfg.PPlug = 85
	cfg.PBurst = 55
	cfg.PDot = 8
	engine.CheckE1(t, "C08", cfg, func(c *engine.Case, w *engine.World) bool {
		return (f(w, "add-unclean-or-absolute-spelling") > 0 || f(w, "add-through-symlink") > 0) &&
			(f(w, "boundary-name-events") > 0 || f(w, "non-ascii-name-events") > 0) && f(w, "events-decoded-at-offset>0") > 0
	})
}

func TestC09(t *testing.T) {
	cfg := lifeCfg()
	cfg.ListEvery = true
	cfg.POnTop = 8
	engine.CheckE1(t, "C09", cfg, func(c *engine.Case, w *engine.World) bool {
		return w.M.NDeleteSelf+w.M.NMoveSelf > 0 && w.Delivered >= 2
	})
}

// TestC07Reader: Add/Remove/WatchList issued at harness-chosen points of the
// reader goroutine's progress through a burst (parked in a send with the rest
// of the burst unread, between the two records that end a watch, after j
// receives), mixed with deletion, re-creation and re-adding of the watched
// paths themselves. The results of the calls and WatchList after every step
// must be those of the sequential model applied to the calls in their order.
func TestC07Reader(t *testing.T) {
	cfg := lifeCfg()
	cfg.ListEvery = true
	cfg.PBurst = 70
	cfg.PPlug = 70
	cfg.PRemoveNow = 30
	cfg.PApi = 45
	cfg.PMacro = 30
	cfg.POnTop = 10
	cfg.Bufs = []int{0, 0, 1, 2, 8}
	engine.CheckE1(t, "C07", cfg, func(c *engine.Case, w *engine.World) bool {
		return f(w, "remove-inside-burst")+f(w, "add-inside-burst") > 0 && w.M.NDeleteSelf+w.M.NMoveSelf > 0
	})
}

func TestC10(t *testing.T) {
	cfg := lifeCfg()
	cfg.PBurst = 75
	cfg.PPlug = 90
	cfg.MaxBurst = 12
	cfg.POnTop = 12
	cfg.PApi = 20
	cfg.PMacro = 22
	engine.CheckE1(t, "C10", cfg, func(c *engine.Case, w *engine.World) bool {
		return f(w, "plug") > 0 && w.M.NDeleteSelf+w.M.NMoveSelf > 0
	})
}

func TestC11(t *testing.T) {
	cfg := baseCfg()
	cfg.MinOps = 20
	cfg.MaxOps = 70
	cfg.MaxNames = 5
	cfg.Shapes = false
	cfg.WatchFiles = 20 // a moved entry that is itself watched, beside its watched parent
	cfg.POnTop = -1
	cfg.PApi = 5
	cfg.PRemoveNow = 12 // Remove of a watched directory between the two halves of a move
	cfg.PLongPause = 5  // a consumer that stays away for more than a second
	cfg.PDot = 6        // moves inside the working directory watched as "." (names "./x")
	cfg.PRecv = 25      // the reader advances a few events into the burst and parks again (often on a Rename)
	cfg.W = map[string]int{
		engine.KCreate: 12, engine.KRename: 45, engine.KLink: 6, engine.KUnlink: 6, engine.KWrite: 3, engine.KMkdir: 3, engine.KSymlink: 2,
	}
	engine.CheckE1(t, "C11", cfg, func(c *engine.Case, w *engine.World) bool {
		return w.M.NCookiePairs > 0 && (w.M.NUnmatchedOut > 0 || f(w, "renames-with-events") > 10) && w.Delivered >= 4
	})
}

func TestC12(t *testing.T) {
	cfg := lifeCfg()
	cfg.Fdchk = true
	engine.CheckE1(t, "C12", cfg, func(c *engine.Case, w *engine.World) bool {
		return f(w, "add-repoint") > 0 || f(w, "add-repoint-onto-watched") > 0 || f(w, "remove-listed")+f(w, "add-again") >= 3
	})
}

func TestC14(t *testing.T) {
	cfg := baseCfg()
	cfg.Bufs = []int{-1, 0, 1, 2, 4, 8, 16, 64, 256, 1024, 4096, 16384, 65536}
	cfg.Others = 7
	cfg.PAbsorb = 25
	cfg.MaxBurst = 12
	engine.CheckE1(t, "C14", cfg, func(c *engine.Case, w *engine.World) bool {
		return w.Delivered >= 3 && w.Feat["other-watchers"] >= 1
	})
}

func TestC19(t *testing.T) {
	owned := engine.Owned["C19"]
	rapid.Check(t, func(rt *rapid.T) {
		c := engine.GenC19(rt)
		w := engine.Exec(c)
		nt := w.R != nil && (w.R.NInnerRename > 0 || w.Feat["recursive-root-removed"] > 0) && w.Delivered >= 2
		engine.RecordCase("C19", c, w, nt)
		if w.R != nil {
			st := engine.StatsFor("C19")
			st.AddFeat("inner-dir-renames", w.R.NInnerRename)
			st.AddFeat("dirs-created-while-watched", w.R.NNewDirs)
		}
		if rep := engine.Report(c, w, owned); rep != nil {
			small := engine.Shrink(c, owned, 400)
			if w2, _ := engine.ExecQuiet(small); w2 != nil {
				if rep2 := engine.Report(small, w2, owned); rep2 != nil {
					c, rep = small, rep2
				}
			}
			p := engine.SaveReplay("C19", c)
			rt.Fatalf("property C19 violated (replay %s)\ncase: %s\n%s", p, c, strings.Join(rep, "\n"))
		}
	})
}
