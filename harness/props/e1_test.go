package props

import (
	"testing"

	"verif/harness/engine"
)

func any(c *engine.Case, w *engine.World) bool { return w.Delivered >= 3 }

func TestC02(t *testing.T) { engine.CheckE1(t, "C02", baseCfg(), any) }
func TestC03(t *testing.T) { engine.CheckE1(t, "C03", baseCfg(), any) }
func TestC04(t *testing.T) {
	cfg := baseCfg()
	cfg.PApi = 50
	cfg.ListEvery = true
	engine.CheckE1(t, "C04", cfg, any)
}
func TestC08(t *testing.T) { engine.CheckE1(t, "C08", baseCfg(), any) }
func TestC09(t *testing.T) {
	cfg := baseCfg()
	cfg.PApi = 30
	cfg.ListEvery = true
	engine.CheckE1(t, "C09", cfg, any)
}
func TestC10(t *testing.T) { engine.CheckE1(t, "C10", baseCfg(), any) }
func TestC11(t *testing.T) { engine.CheckE1(t, "C11", baseCfg(), any) }
func TestC12(t *testing.T) {
	cfg := baseCfg()
	cfg.PApi = 30
	cfg.Fdchk = true
	engine.CheckE1(t, "C12", cfg, any)
}
