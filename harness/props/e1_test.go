package props

import (
	"strings"

	"pgregory.net/rapid"

	"testing"

	"verif/harness/engine"
)

// lifecycle emphasis: few names, files watched, delete/recreate/link/hold heavy.
func lifeCfg() engine.GenCfg {
	cfg := baseCfg()
	cfg.MaxNames = 3
	cfg.Shapes = false
	cfg.WatchFiles = 65
	cfg.PApi = 35
	cfg.PAddAgain = 55
	cfg.MaxBurst = 8
	cfg.W = map[string]int{
		engine.KCreate: 14, engine.KWrite: 5, engine.KChmod: 3, engine.KUnlink: 14, engine.KMkdir: 2, engine.KRmdir: 2,
		engine.KRename: 12, engine.KLink: 8, engine.KSymlink: 4, engine.KHold: 6, engine.KRelease: 4, engine.KRmr: 1, engine.KTrunc: 1,
	}
	return cfg
}

func any(c *engine.Case, w *engine.World) bool { return w.Delivered >= 3 }

func TestC02(t *testing.T) { engine.CheckE1(t, "C02", baseCfg(), any) }
func TestC03(t *testing.T) { engine.CheckE1(t, "C03", baseCfg(), any) }
func TestC04(t *testing.T) {
	cfg := lifeCfg()
	cfg.PApi = 50
	cfg.ListEvery = true
	engine.CheckE1(t, "C04", cfg, any)
}
func TestC08(t *testing.T) { engine.CheckE1(t, "C08", baseCfg(), any) }
func TestC09(t *testing.T) {
	cfg := lifeCfg()
	cfg.ListEvery = true
	engine.CheckE1(t, "C09", cfg, any)
}
func TestC10(t *testing.T) { engine.CheckE1(t, "C10", baseCfg(), any) }
func TestC11(t *testing.T) { engine.CheckE1(t, "C11", baseCfg(), any) }
func TestC12(t *testing.T) {
	cfg := lifeCfg()
	cfg.Fdchk = true
	engine.CheckE1(t, "C12", cfg, any)
}

func TestC14(t *testing.T) {
	cfg := baseCfg()
	cfg.Bufs = []int{-1, 0, 1, 2, 4, 8, 16, 64, 256, 1024, 4096, 16384, 65536}
	cfg.Others = 7
	cfg.PAbsorb = 25
	cfg.MaxBurst = 12
	engine.CheckE1(t, "C14", cfg, func(c *engine.Case, w *engine.World) bool {
		return w.Delivered >= 3 && w.Feat["other-watchers"] >= 1
	})
}

func TestC19(t *testing.T) {
	owned := engine.Owned["C19"]
	rapid.Check(t, func(rt *rapid.T) {
		c := engine.GenC19(rt)
		w := engine.Exec(c)
		nt := w.R != nil && (w.R.NInnerRename > 0 || w.Feat["recursive-root-removed"] > 0) && w.Delivered >= 2
		engine.RecordCase("C19", c, w, nt)
		if w.R != nil {
			st := engine.StatsFor("C19")
			st.AddFeat("inner-dir-renames", w.R.NInnerRename)
			st.AddFeat("dirs-created-while-watched", w.R.NNewDirs)
		}
		if rep := engine.Report(c, w, owned); rep != nil {
			small := engine.Shrink(c, owned, 400)
			w2 := engine.Exec(small)
			if rep2 := engine.Report(small, w2, owned); rep2 != nil {
				c, rep = small, rep2
			}
			p := engine.SaveReplay("C19", c)
			rt.Fatalf("property C19 violated (replay %s)\ncase: %s\n%s", p, c, strings.Join(rep, "\n"))
		}
	})
}
