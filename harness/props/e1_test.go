package props

import (
	"testing"

	"verif/harness/engine"
)

// lifecycle emphasis: few names, files watched, delete/recreate/link/hold heavy.
func lifeCfg() engine.GenCfg {
	cfg := baseCfg()
	cfg.MaxNames = 3
	cfg.Shapes = false
	cfg.WatchFiles = 65
	cfg.PApi = 35
	cfg.PAddAgain = 55
	cfg.MaxBurst = 8
	cfg.W = map[string]int{
		engine.KCreate: 14, engine.KWrite: 5, engine.KChmod: 3, engine.KUnlink: 14, engine.KMkdir: 2, engine.KRmdir: 2,
		engine.KRename: 12, engine.KLink: 8, engine.KSymlink: 4, engine.KHold: 6, engine.KRelease: 4, engine.KRmr: 1, engine.KTrunc: 1,
	}
	return cfg
}

func any(c *engine.Case, w *engine.World) bool { return w.Delivered >= 3 }

func TestC02(t *testing.T) { engine.CheckE1(t, "C02", baseCfg(), any) }
func TestC03(t *testing.T) { engine.CheckE1(t, "C03", baseCfg(), any) }
func TestC04(t *testing.T) {
	cfg := lifeCfg()
	cfg.PApi = 50
	cfg.ListEvery = true
	engine.CheckE1(t, "C04", cfg, any)
}
func TestC08(t *testing.T) { engine.CheckE1(t, "C08", baseCfg(), any) }
func TestC09(t *testing.T) {
	cfg := lifeCfg()
	cfg.ListEvery = true
	engine.CheckE1(t, "C09", cfg, any)
}
func TestC10(t *testing.T) { engine.CheckE1(t, "C10", baseCfg(), any) }
func TestC11(t *testing.T) { engine.CheckE1(t, "C11", baseCfg(), any) }
func TestC12(t *testing.T) {
	cfg := lifeCfg()
	cfg.Fdchk = true
	engine.CheckE1(t, "C12", cfg, any)
}
