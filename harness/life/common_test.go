// Package life holds the lifecycle / concurrency checks (E2): C05, C06, C07, C13.
package life

import (
	"errors"
	"fmt"
	"os"
	"runtime"
	"strings"
	"sync"
	"sync/atomic"
	"syscall"
	"testing"
	"time"

	"github.com/fsnotify/fsnotify"
	"pgregory.net/rapid"

	"verif/harness/engine"
)

func TestMain(m *testing.M) { engine.Main(m) }

// Call is one API call of a programme.
type Call struct {
	G int      `json:"g"`           // goroutine (C07) / unused
	K string   `json:"k"`           // add, remove, list, close
	P engine.P `json:"p,omitempty"` // argument
	N int      `json:"n,omitempty"` // close: number of concurrent Close calls
}

func (c Call) String() string {
	switch c.K {
	case "list":
		return "WatchList()"
	case "close":
		if c.N > 1 {
			return fmt.Sprintf("Close()x%d", c.N)
		}
		return "Close()"
	}
	return fmt.Sprintf("%s(%q)", strings.Title(c.K), string(c.P))
}

// LCase is a replayable case of the lifecycle engine.
type LCase struct {
	Prop      string        `json:"prop"`
	Buf       int           `json:"buf"`
	Setup     []engine.Step `json:"setup,omitempty"`
	Adds      []engine.P    `json:"adds,omitempty"`
	Plug      bool          `json:"plug,omitempty"`
	Reach     []engine.Step `json:"reach,omitempty"` // fs ops run after the plug: pending in the kernel
	Overflow  int           `json:"overflow,omitempty"`
	Churn     int           `json:"churn,omitempty"` // C07: filesystem churn operations per churn goroutine
	Consumer  string        `json:"consumer"`        // both, events, errors, none, stop
	StopAfter int           `json:"stop_after,omitempty"`
	Calls     []Call        `json:"calls,omitempty"`
	Suffix    []engine.Step `json:"suffix,omitempty"` // fs ops after Close (C06)
	Procs     int           `json:"gomaxprocs,omitempty"`
	ClosePos  int           `json:"close_pos,omitempty"`
	Storm     int           `json:"storm,omitempty"` // goroutines hammering Add/WatchList/Remove while Close runs
}

func (c *LCase) Save(p string) error { return engine.SaveJSON(p, c) }

func (c *LCase) String() string {
	var b strings.Builder
	fmt.Fprintf(&b, "buf=%d consumer=%s", c.Buf, c.Consumer)
	if c.Consumer == "stop" {
		fmt.Fprintf(&b, "(%d)", c.StopAfter)
	}
	if c.Procs > 0 {
		fmt.Fprintf(&b, " GOMAXPROCS=%d", c.Procs)
	}
	b.WriteString(" setup:")
	for _, s := range c.Setup {
		b.WriteString(" " + s.String())
	}
	b.WriteString(" ; adds:")
	for _, a := range c.Adds {
		fmt.Fprintf(&b, " %q", string(a))
	}
	if c.Plug {
		b.WriteString(" ; plug")
	}
	if len(c.Reach) > 0 {
		b.WriteString(" ; pending:")
		for _, s := range c.Reach {
			b.WriteString(" " + s.String())
		}
	}
	if c.Churn > 0 {
		fmt.Fprintf(&b, " ; churn(%d)", c.Churn)
	}
	if c.Overflow > 0 {
		fmt.Fprintf(&b, " ; overflow(%d)", c.Overflow)
	}
	b.WriteString(" ; calls:")
	for _, s := range c.Calls {
		if c.Procs > 0 {
			fmt.Fprintf(&b, " g%d:", s.G)
		} else {
			b.WriteString(" ")
		}
		b.WriteString(s.String())
	}
	if len(c.Suffix) > 0 {
		b.WriteString(" ; after:")
		for _, s := range c.Suffix {
			b.WriteString(" " + s.String())
		}
	}
	return b.String()
}

func loadLCase(t *testing.T) *LCase {
	p := os.Getenv("VERIF_REPLAY")
	if p == "" {
		t.Skip("no VERIF_REPLAY")
	}
	var probe map[string]any
	if err := engine.LoadJSON(p, &probe); err == nil {
		if _, e1 := probe["steps"]; e1 {
			t.Skip("replay file of the shadow-inotify engine (harness/props)")
		}
	}
	var c LCase
	if err := engine.LoadJSON(p, &c); err != nil {
		t.Fatal(err)
	}
	return &c
}

func journal(c *LCase) {
	if p := os.Getenv("VERIF_JOURNAL"); p != "" {
		c.Save(p)
	}
}

var watchdog = func() time.Duration {
	if os.Getenv("VERIF_TIER") == "thorough" {
		return 10 * time.Second
	}
	return 4 * time.Second
}()

// consumer receives according to the case's consumer behaviour until stopped.
type consumer struct {
	w        *fsnotify.Watcher
	mode     string
	stop     chan struct{}
	wg       sync.WaitGroup
	mu       sync.Mutex
	events   []fsnotify.Event
	errs     []error
	evClosed bool
	erClosed bool
	nEv      int64
}

func startConsumer(w *fsnotify.Watcher, mode string, stopAfter int) *consumer {
	c := &consumer{w: w, mode: mode, stop: make(chan struct{})}
	recvEv := mode == "both" || mode == "events" || mode == "stop"
	recvEr := mode == "both" || mode == "errors"
	if recvEv {
		c.wg.Add(1)
		go func() {
			defer c.wg.Done()
			for {
				if mode == "stop" && int(atomic.LoadInt64(&c.nEv)) >= stopAfter {
					return
				}
				select {
				case ev, ok := <-w.Events:
					if !ok {
						c.mu.Lock()
						c.evClosed = true
						c.mu.Unlock()
						return
					}
					atomic.AddInt64(&c.nEv, 1)
					c.mu.Lock()
					c.events = append(c.events, ev)
					c.mu.Unlock()
				case <-c.stop:
					return
				}
			}
		}()
	}
	if recvEr {
		c.wg.Add(1)
		go func() {
			defer c.wg.Done()
			for {
				select {
				case err, ok := <-w.Errors:
					if !ok {
						c.mu.Lock()
						c.erClosed = true
						c.mu.Unlock()
						return
					}
					c.mu.Lock()
					c.errs = append(c.errs, err)
					c.mu.Unlock()
				case <-c.stop:
					return
				}
			}
		}()
	}
	return c
}

func (c *consumer) halt() {
	close(c.stop)
	c.wg.Wait()
}

// lifeCall is the marker frame BlockedProof looks for.
//
//go:noinline
func lifeCall(f func()) { f() }

// withWatchdog runs f in a goroutine; returns ("", true) when it returned in
// time, (proof, false) when it is provably blocked inside fsnotify, and exits
// the process as inconclusive when it is merely late.
func withWatchdog(what string, f func()) (proof string, ok bool) {
	done := make(chan struct{})
	gid := make(chan string, 1)
	go func() {
		gid <- engine.GoID()
		lifeCall(f)
		close(done)
	}()
	marker := "gid:" + <-gid
	t := time.NewTimer(watchdog)
	defer t.Stop()
	select {
	case <-done:
		return "", true
	case <-t.C:
	}
	proof = engine.BlockedProof(marker)
	if proof != "" {
		return what + " did not return within " + watchdog.String() + "\n" + proof, false
	}
	if _, st, _ := engine.GoroutineState(marker); st != "" {
		// the call is still inside; is somebody it waits for looping forever?
		if sp := engine.SpinProof(); sp != "" {
			select {
			case <-done:
				return "", true
			default:
				return what + " did not return within " + watchdog.String() + "; " + sp, false
			}
		}
	}
	select {
	case <-done:
		return "", true
	case <-time.After(20 * time.Second):
	}
	// a last look: blocked now, after having been merely slow before?
	if proof = engine.BlockedProof(marker); proof != "" {
		return what + " did not return\n" + proof, false
	}
	select {
	case <-done:
		return "", true
	default:
	}
	engine.ExitInconclusive(what + " is late but not provably blocked")
	return "", true
}

// stormIters counts the API calls made by storm goroutines of the current case.
var stormIters int64

// stormBody is what one storm goroutine does: the even ones only ask for the
// list (many short attempts at the moment the closed flag flips), the odd ones
// add and remove (they hold the lock across system calls, so that the others
// queue for it).
func stormBody(w *fsnotify.Watcher, g int) {
	if g%2 == 0 {
		for i := 0; i < 300; i++ {
			w.WatchList()
			atomic.AddInt64(&stormIters, 1)
			if i%16 == 15 {
				runtime.Gosched()
			}
		}
		return
	}
	for i := 0; i < 80; i++ {
		if (i+g)%2 == 0 {
			w.Add([]string{"d0", "d1", "u"}[i%3])
		} else {
			w.Remove([]string{"d1", "u"}[i%2])
		}
		atomic.AddInt64(&stormIters, 1)
	}
}

// midStorm waits (bounded) until the storm has made n calls, so that what
// follows lands in the middle of it rather than at its start.
func midStorm(n int) {
	deadline := time.Now().Add(200 * time.Millisecond)
	for atomic.LoadInt64(&stormIters) < int64(n) && time.Now().Before(deadline) {
		runtime.Gosched()
	}
}

// guarded runs one API call under the watchdog and returns the proof that it
// is blocked forever, or "".
func guarded(what string, f func()) string {
	proof, _ := withWatchdog(what, f)
	return proof
}

func errClass(err error) string {
	switch {
	case err == nil:
		return "nil"
	case errors.Is(err, fsnotify.ErrClosed):
		return "ErrClosed"
	case errors.Is(err, fsnotify.ErrNonExistentWatch):
		return "ErrNonExistentWatch"
	}
	var en syscall.Errno
	if errors.As(err, &en) {
		return "errno:" + en.Error()
	}
	return "other:" + err.Error()
}

func fail(rt *rapid.T, t *testing.T, prop string, c *LCase, format string, a ...any) {
	p := engine.SaveReplay(prop, c)
	msg := fmt.Sprintf("property %s violated (replay %s)\ncase: %s\n%s", prop, p, c, fmt.Sprintf(format, a...))
	engine.StatsFor(prop).AddFeat("violations", 1)
	if rt != nil {
		rt.Fatalf("%s", msg)
	}
	t.Fatalf("%s", msg)
}

// common generators ---------------------------------------------------------

var lifeNames = []string{"a", "b", "c", "dd"}

func genSetup(t *rapid.T) (setup []engine.Step, files, dirs []string) {
	dirs = []string{"d0", "d1"}
	for _, d := range dirs {
		setup = append(setup, engine.Step{K: engine.KMkdir, P: engine.P(d)})
	}
	setup = append(setup, engine.Step{K: engine.KMkdir, P: "u"})
	n := rapid.IntRange(1, 4).Draw(t, "nfiles")
	seen := map[string]bool{}
	for i := 0; i < n; i++ {
		p := rapid.SampledFrom(dirs).Draw(t, "fdir") + "/" + rapid.SampledFrom(lifeNames).Draw(t, "fname")
		if seen[p] {
			continue
		}
		seen[p] = true
		files = append(files, p)
		setup = append(setup, engine.Step{K: engine.KCreate, P: engine.P(p)})
	}
	if rapid.Bool().Draw(t, "subdir") {
		setup = append(setup, engine.Step{K: engine.KMkdir, P: "d0/sub"})
		dirs = append(dirs, "d0/sub")
	}
	setup = append(setup, engine.Step{K: engine.KSymlink, P: "d0", Q: "ld0"})
	return
}

func genFsOps(t *rapid.T, label string, files, dirs []string, min, max int) []engine.Step {
	n := rapid.IntRange(min, max).Draw(t, label+"-n")
	var out []engine.Step
	path := func(l string) engine.P {
		return engine.P(rapid.SampledFrom(dirs).Draw(t, l+"d") + "/" + rapid.SampledFrom(lifeNames).Draw(t, l+"n"))
	}
	for i := 0; i < n; i++ {
		switch rapid.IntRange(0, 7).Draw(t, label+"-k") {
		case 0, 1:
			out = append(out, engine.Step{K: engine.KCreate, P: path(label)})
		case 2:
			out = append(out, engine.Step{K: engine.KWrite, P: path(label), N: 3})
		case 3:
			out = append(out, engine.Step{K: engine.KChmod, P: path(label), N: 0o600})
		case 4:
			out = append(out, engine.Step{K: engine.KUnlink, P: path(label)})
		case 5:
			out = append(out, engine.Step{K: engine.KRename, P: path(label), Q: path(label + "q")})
		case 6:
			out = append(out, engine.Step{K: engine.KRename, P: path(label), Q: engine.P("u/" + rapid.SampledFrom(lifeNames).Draw(t, label+"un"))})
		default:
			out = append(out, engine.Step{K: engine.KMkdir, P: path(label)})
		}
	}
	return out
}

// invalidating pairs: the second step removes the kernel watch of a watched
// path before the notification of the first has been handled.
func genInvalidate(t *rapid.T, watched string, isDir bool) []engine.Step {
	tmp := engine.P("u/moved-" + rapid.SampledFrom(lifeNames).Draw(t, "mv"))
	w := engine.P(watched)
	switch rapid.IntRange(0, 3).Draw(t, "inval") {
	case 0: // rename then delete
		if isDir {
			return []engine.Step{{K: engine.KRename, P: w, Q: tmp}, {K: engine.KRmr, P: tmp}}
		}
		return []engine.Step{{K: engine.KRename, P: w, Q: tmp}, {K: engine.KUnlink, P: tmp}}
	case 1: // delete
		if isDir {
			return []engine.Step{{K: engine.KRmr, P: w}}
		}
		return []engine.Step{{K: engine.KUnlink, P: w}}
	case 2: // rename, rename back, delete
		if isDir {
			return []engine.Step{{K: engine.KRename, P: w, Q: tmp}, {K: engine.KRename, P: tmp, Q: w}, {K: engine.KRmr, P: w}}
		}
		return []engine.Step{{K: engine.KRename, P: w, Q: tmp}, {K: engine.KRename, P: tmp, Q: w}, {K: engine.KUnlink, P: w}}
	default: // chmod, rename away
		return []engine.Step{{K: engine.KChmod, P: w, N: 0o700}, {K: engine.KRename, P: w, Q: tmp}}
	}
}

func setProcs(n int) func() {
	if n <= 0 {
		return func() {}
	}
	old := runtime.GOMAXPROCS(n)
	return func() { runtime.GOMAXPROCS(old) }
}

// overflowBurst queues more notifications than the kernel queue holds in the
// watched directory dir (nobody has to be receiving): an error is then pending
// behind the queued events.
func overflowBurst(w *fsnotify.Watcher, extra int) (blocked string) {
	// a directory of its own, so that nothing else in the case can end its watch
	dir := "ovf"
	syscall.Mkdir(dir, 0o755)
	if p := guarded("Add(\"ovf\")", func() { w.Add(dir) }); p != "" {
		return p
	}
	n := engine.MaxQueuedEvents() + cap(w.Events) + 64 + extra
	a, b := dir+"/a", dir+"/b"
	for _, p := range []string{a, b} {
		if fd, err := syscall.Open(p, syscall.O_CREAT|syscall.O_WRONLY|syscall.O_CLOEXEC, 0o644); err == nil {
			syscall.Close(fd)
		}
	}
	// alternating attribute changes: one notification each, never merged
	for i := 0; i < n; i++ {
		if i%2 == 0 {
			syscall.Chmod(a, 0o600+uint32(i/2%2)*0o44)
		} else {
			syscall.Chmod(b, 0o600+uint32(i/2%2)*0o44)
		}
	}
	return ""
}

// genOverflow decides whether a case leaves a kernel queue overflow (and so an
// error) pending; such cases cost ~0.4 s, so they are drawn rarely.
func genOverflow(t *rapid.T, c *LCase) {
	pct := 3
	if os.Getenv("VERIF_TIER") == "thorough" {
		pct = 6
	}
	if !engine.Pct(t, "overflow", pct) {
		return
	}
	c.Overflow = rapid.IntRange(1, 3000).Draw(t, "overflow-extra")
	// let the reader reach the overflow marker: somebody takes the events,
	// mostly nobody takes the error
	c.Consumer = rapid.SampledFrom([]string{"events", "events", "events", "both", "none"}).Draw(t, "ovf-consumer")
}

// waitParkedInSendError waits (bounded, best effort) until the reader goroutine
// is parked sending an error: the state "an error is waiting to be delivered".
func waitParkedInSendError() {
	deadline := time.Now().Add(5 * time.Second)
	for time.Now().Before(deadline) {
		idle := false
		for _, g := range engine.FsnotifyGoroutines() {
			if strings.Contains(g, "sendError") {
				return
			}
			if strings.Contains(g, "readEvents") && strings.Contains(g, "IO wait") {
				idle = true // everything consumed: no error is coming
			}
		}
		if idle {
			return
		}
		time.Sleep(2 * time.Millisecond)
	}
}
