package life

import (
	"fmt"
	"sync/atomic"
	"testing"

	"pgregory.net/rapid"

	"verif/harness/engine"
)

func genC05(t *rapid.T) *LCase {
	c := &LCase{Prop: "C05"}
	c.Buf = rapid.SampledFrom([]int{-1, 0, 1, 8, 4096}).Draw(t, "buf")
	setup, files, dirs := genSetup(t)
	c.Setup = setup
	// watches: some dirs, some files
	type wt struct {
		p   string
		dir bool
	}
	var ws []wt
	for _, d := range dirs {
		if rapid.IntRange(0, 2).Draw(t, "adddir") > 0 {
			ws = append(ws, wt{d, true})
		}
	}
	for _, f := range files {
		if rapid.Bool().Draw(t, "addfile") {
			ws = append(ws, wt{f, false})
		}
	}
	if len(ws) == 0 {
		ws = append(ws, wt{"d0", true})
	}
	for _, w := range ws {
		c.Adds = append(c.Adds, engine.P(w.p))
	}
	c.Plug = rapid.IntRange(0, 9).Draw(t, "plug") < 8
	// pending activity
	c.Reach = genFsOps(t, "reach", files, dirs, 0, 12)
	if rapid.IntRange(0, 9).Draw(t, "invalidate") < 7 {
		w := rapid.SampledFrom(ws).Draw(t, "victim")
		c.Reach = append(c.Reach, genInvalidate(t, w.p, w.dir)...)
		c.Reach = append(c.Reach, genFsOps(t, "reach2", files, dirs, 0, 3)...)
	}
	if engine.Pct(t, "ringfill", 10) {
		// many moves out of watched territory (unmatched rename cookies), then
		// moves in from outside and within: the cookie bookkeeping is past its
		// first ten entries while control calls are made
		n := rapid.IntRange(9, 14).Draw(t, "ringn")
		for i := 0; i < n; i++ {
			f := engine.P(fmt.Sprintf("d0/ring-%d", i))
			c.Reach = append(c.Reach, engine.Step{K: engine.KCreate, P: f}, engine.Step{K: engine.KRename, P: f, Q: engine.P(fmt.Sprintf("u/ring-%d", i))})
		}
		c.Reach = append(c.Reach, engine.Step{K: engine.KRename, P: "u/ring-0", Q: "d0/ring-back"}, engine.Step{K: engine.KRename, P: "d0/ring-back", Q: "d0/ring-back2"})
		has := false
		for _, a := range c.Adds {
			if a == "d0" {
				has = true
			}
		}
		if !has {
			c.Adds = append(c.Adds, "d0")
		}
	}
	c.Consumer = rapid.SampledFrom([]string{"none", "events", "errors", "both", "stop", "none", "events"}).Draw(t, "consumer")
	if c.Consumer == "stop" {
		c.StopAfter = rapid.IntRange(0, 12).Draw(t, "stopafter")
	}
	n := rapid.IntRange(1, 6).Draw(t, "ncalls")
	for i := 0; i < n; i++ {
		switch rapid.IntRange(0, 9).Draw(t, "call") {
		case 0, 1:
			c.Calls = append(c.Calls, Call{K: "add", P: engine.P(rapid.SampledFrom([]string{"d0", "d1", "u", "ld0", "d0/a", "missing", "d0/sub"}).Draw(t, "addp"))})
		case 2, 3:
			c.Calls = append(c.Calls, Call{K: "remove", P: engine.P(rapid.SampledFrom([]string{"d0", "d1", "u", "ld0", "d0/a", "d1/b"}).Draw(t, "rmp"))})
		case 4, 5, 6:
			c.Calls = append(c.Calls, Call{K: "list"})
		default:
			c.Calls = append(c.Calls, Call{K: "close", N: rapid.IntRange(1, 3).Draw(t, "nclose")})
		}
	}
	c.Calls = append(c.Calls, Call{K: "close", N: rapid.IntRange(1, 3).Draw(t, "nclose-final")})
	if engine.Pct(t, "storm", 20) {
		// the final Close calls race several goroutines looping over
		// Add/WatchList/Remove, and one more Close follows
		c.Storm = rapid.IntRange(3, 10).Draw(t, "storm-n")
	}
	genOverflow(t, c)
	return c
}

// runC05 returns a violation description or "".
func runC05(c *LCase) (viol string, nontrivial bool) {
	defer engine.Guard()
	journal(c)
	w, err := engine.NewWorld(&engine.Case{Prop: "C05", Buf: c.Buf, Setup: c.Setup})
	if err != nil {
		engine.ExitInconclusive("setup: " + err.Error())
	}
	defer w.Destroy()
	for _, a := range c.Adds {
		a := string(w.Subst(a))
		if p := guarded(fmt.Sprintf("Add(%q)", a), func() { w.W.Add(a) }); p != "" {
			return p, false
		}
	}
	if c.Plug {
		w.Plug()
		if w.Failed() {
			return fmt.Sprint(w.Findings), false
		}
	}
	for _, s := range c.Reach {
		w.FsOp(s)
	}
	if c.Overflow > 0 {
		if p := overflowBurst(w.W, c.Overflow); p != "" {
			return p, true
		}
	}
	pending, _ := engine.Fionread(w.Wfd)
	nontrivial = pending > 0 || c.Plug
	cons := startConsumer(w.W, c.Consumer, c.StopAfter)
	defer cons.halt()
	if c.Overflow > 0 && (c.Consumer == "events" || c.Consumer == "stop") {
		waitParkedInSendError()
	}
	for i, call := range c.Calls {
		call := call
		n := 1
		if call.K == "close" && call.N > 1 {
			n = call.N
		}
		storm := 0
		if i == len(c.Calls)-1 {
			storm = c.Storm
			atomic.StoreInt64(&stormIters, 0)
		}
		res := make(chan string, n+storm+1)
		for g := 0; g < storm; g++ {
			g := g
			go func() {
				proof, _ := withWatchdog(fmt.Sprintf("storm goroutine %d (Add/WatchList/Remove loop)", g), func() { stormBody(w.W, g) })
				res <- proof
			}()
		}
		if storm > 0 {
			defer func() {
				if viol == "" {
					viol = guarded("Close() after the racing calls", func() { w.W.Close() })
				}
			}()
		}
		for k := 0; k < n; k++ {
			go func() {
				proof, ok := withWatchdog(call.String(), func() {
					if storm > 0 {
						midStorm(storm * 25)
					}
					switch call.K {
					case "add":
						w.W.Add(string(call.P))
					case "remove":
						w.W.Remove(string(call.P))
					case "list":
						w.W.WatchList()
					case "close":
						w.W.Close()
					}
				})
				if !ok {
					res <- proof
				} else {
					res <- ""
				}
			}()
		}
		for k := 0; k < n+storm; k++ {
			if p := <-res; p != "" {
				return fmt.Sprintf("call %d: %s", i, p), nontrivial
			}
		}
	}
	return "", nontrivial
}

func TestC05(t *testing.T) {
	st := engine.StatsFor("C05")
	rapid.Check(t, func(rt *rapid.T) {
		c := genC05(rt)
		viol, nt := runC05(c)
		st.Eval()
		st.AddFeat("consumer-"+c.Consumer, 1)
		if c.Plug {
			st.AddFeat("reader-parked", 1)
		}
		if c.Overflow > 0 {
			st.AddFeat("error-pending-after-overflow", 1)
		}
		if nt {
			st.NonTrivial(c.String(), c.String())
		}
		if viol != "" {
			fail(rt, nil, "C05", c, "%s", viol)
		}
	})
}

func TestReplayC05(t *testing.T) {
	c := loadLCase(t)
	engine.StatsFor("C05").Eval()
	if viol, _ := runC05(c); viol != "" {
		fail(nil, t, "C05", c, "%s", viol)
	}
}
