package life

import (
	"fmt"
	"os"
	"runtime"
	"strconv"
	"strings"
	"syscall"
	"testing"
	"time"

	"github.com/fsnotify/fsnotify"
	"pgregory.net/rapid"

	"verif/harness/engine"
)

func maxFd() int {
	ents, _ := os.ReadDir("/proc/self/fd")
	m := 0
	for _, e := range ents {
		if n, err := strconv.Atoi(e.Name()); err == nil && n > m {
			m = n
		}
	}
	return m
}

// failingNewWatcher makes inotify_init1 fail with EMFILE by lowering the soft
// RLIMIT_NOFILE of this process to the number of descriptors in use, then
// restores it. Returns what NewWatcher returned.
func failingNewWatcher(buf int) (*fsnotify.Watcher, error, bool) {
	var old syscall.Rlimit
	if err := syscall.Getrlimit(syscall.RLIMIT_NOFILE, &old); err != nil {
		return nil, nil, false
	}
	// fill the holes below the highest descriptor so that the limit bites:
	// open until the kernel hands out a number above everything seen before
	m := maxFd()
	var fill []int
	top := m
	for {
		fd, err := syscall.Open("/dev/null", syscall.O_RDONLY|syscall.O_CLOEXEC, 0)
		if err != nil {
			break
		}
		fill = append(fill, fd)
		if fd > m {
			top = fd
			break
		}
	}
	lim := old
	lim.Cur = uint64(top + 1)
	if err := syscall.Setrlimit(syscall.RLIMIT_NOFILE, &lim); err != nil {
		for _, fd := range fill {
			syscall.Close(fd)
		}
		return nil, nil, false
	}
	var w *fsnotify.Watcher
	var err error
	if buf < 0 {
		w, err = fsnotify.NewWatcher()
	} else {
		w, err = fsnotify.NewBufferedWatcher(uint(buf))
	}
	syscall.Setrlimit(syscall.RLIMIT_NOFILE, &old)
	for _, fd := range fill {
		syscall.Close(fd)
	}
	return w, err, true
}

// countFds is the number of open descriptors of the process (the listing's own
// descriptor is counted every time alike).
func countFds() int {
	ents, _ := os.ReadDir("/proc/self/fd")
	return len(ents)
}

// instanceLimitNewWatcher calls NewWatcher while the per-user limit of inotify
// instances is genuinely reached: raw instances are created until the kernel
// refuses with EMFILE, NewWatcher is called, and the raw instances are closed
// again at once (the limit is shared by all processes of the user, so the
// state is held for well under a millisecond). ok is false when the limit
// could not be reached or NewWatcher got through because somebody else
// released an instance in between.
func instanceLimitNewWatcher(buf int) (w *fsnotify.Watcher, err error, fdsBefore, fdsAfter int, ok bool) {
	var raw []int
	defer func() {
		for _, fd := range raw {
			syscall.Close(fd)
		}
	}()
	fdsBefore = countFds()
	for len(raw) < 4096 {
		fd, e := syscall.InotifyInit1(syscall.IN_CLOEXEC | syscall.IN_NONBLOCK)
		if e != nil {
			if e != syscall.EMFILE {
				return nil, nil, 0, 0, false
			}
			break
		}
		raw = append(raw, fd)
	}
	if buf < 0 {
		w, err = fsnotify.NewWatcher()
	} else {
		w, err = fsnotify.NewBufferedWatcher(uint(buf))
	}
	for _, fd := range raw {
		syscall.Close(fd)
	}
	raw = nil
	if err == nil {
		return w, nil, 0, 0, false
	}
	return w, err, fdsBefore, countFds(), true
}

func sameInts(a, b []int) bool {
	if len(a) != len(b) {
		return false
	}
	for i := range a {
		if a[i] != b[i] {
			return false
		}
	}
	return true
}

// settled waits (bounded) until the inotify descriptors and fsnotify
// goroutines are back at the baseline; returns a violation text or "".
func settled(baseFds []int, what string) string {
	deadline := time.Now().Add(watchdog)
	for {
		fds := engine.InotifyFds()
		gs := engine.FsnotifyGoroutines()
		if sameInts(fds, baseFds) && len(gs) == 0 {
			return ""
		}
		if time.Now().After(deadline) {
			if !sameInts(fds, baseFds) && len(gs) == 0 {
				return fmt.Sprintf("%s: inotify descriptors %v, baseline %v, and no fsnotify goroutine is left that could release them", what, fds, baseFds)
			}
			if len(gs) > 0 {
				if p := engine.BlockedProof("fsnotify.(*inotify)."); p != "" {
					return fmt.Sprintf("%s: %d fsnotify goroutine(s) still exist and are blocked (descriptors %v, baseline %v)\n%s", what, len(gs), fds, baseFds, p)
				}
			}
			engine.ExitInconclusive(fmt.Sprintf("%s: not settled after %v but nothing provably stuck: fds %v base %v goroutines %d", what, watchdog, fds, baseFds, len(gs)))
		}
		time.Sleep(200 * time.Microsecond)
	}
}

var lastC13Violation string

func runC13(c *LCase, failFirst bool) (viol string, nontrivial bool, feats []string) {
	defer engine.Guard()
	journal(c)
	base := engine.InotifyFds()
	if g := engine.FsnotifyGoroutines(); len(g) != 0 {
		if lastC13Violation != "" {
			// an earlier case of this process already failed and left its
			// goroutines behind (rapid is re-running to shrink): the baseline is
			// gone, report the violation already found
			return lastC13Violation, true, nil
		}
		engine.ExitInconclusive("fsnotify goroutines exist before the case: " + g[0])
	}
	defer func() {
		if viol != "" {
			lastC13Violation = viol
		}
	}()
	if failFirst {
		w, err, ok := failingNewWatcher(c.Buf)
		if ok {
			feats = append(feats, "newwatcher-emfile")
			if err == nil {
				if w != nil {
					w.Close()
				}
				engine.ExitInconclusive("could not make inotify_init1 fail")
			}
			if w != nil {
				return fmt.Sprintf("NewWatcher failed with %v but returned a non-nil Watcher", err), true, feats
			}
			if v := settled(base, "after a failed NewWatcher ("+err.Error()+")"); v != "" {
				return v, true, feats
			}
		}
	}
	// the ordinary Close protocol run (C06's oracle applies as well), then resources
	r := runC06(c)
	feats = append(feats, r.feats...)
	if r.viol != "" {
		// the close protocol itself failed; resources cannot be judged
		if strings.Contains(r.viol, "still open") || strings.Contains(r.viol, "did not return") || strings.Contains(r.viol, "close-on-exec") {
			return r.viol, true, feats
		}
	}
	v := settled(base, "after Close returned and both channels closed")
	runtime.KeepAlive(keepAlive)
	keepAlive = keepAlive[:0]
	if v != "" {
		return v, true, feats
	}
	return "", r.nontrivial || failFirst, feats
}

func TestC13(t *testing.T) {
	st := engine.StatsFor("C13")
	rapid.Check(t, func(rt *rapid.T) {
		c := genC06(rt, "C13")
		ff := rapid.IntRange(0, 3).Draw(rt, "failfirst") == 0
		if ff {
			c.ClosePos = 1 // recorded in the replay: inject the NewWatcher fault first
		}
		viol, nt, feats := runC13(c, ff)
		st.Eval()
		for _, f := range feats {
			st.AddFeat(f, 1)
		}
		if nt {
			st.NonTrivial(c.String()+fmt.Sprint(ff), fmt.Sprintf("NewWatcher-EMFILE-first=%v %s", ff, c.String()))
		}
		if viol != "" {
			fail(rt, nil, "C13", c, "%s", viol)
		}
	})
}

// TestC13Soak: many create/use/close cycles on end; counts must stay flat.
func TestC13Soak(t *testing.T) {
	st := engine.StatsFor("C13")
	n := 300
	if os.Getenv("VERIF_TIER") == "thorough" {
		n = 3000
	}
	base := engine.InotifyFds()
	dir := t.TempDir()
	os.Mkdir(dir+"/d", 0o755)
	// NewWatcher at the genuine per-user instance limit: 3 times (thorough 20)
	probesWanted := 3
	if os.Getenv("VERIF_TIER") == "thorough" {
		probesWanted = 20
	}
	probes := probesWanted
	for i := 0; i < n; i++ {
		var w *fsnotify.Watcher
		var err error
		if i%7 == 3 {
			var ok bool
			nb := countFds()
			w, err, ok = failingNewWatcher(i % 3)
			if ok && err != nil {
				if w != nil {
					t.Fatalf("property C13 violated: failed NewWatcher returned a Watcher")
				}
				if na := countFds(); na != nb {
					p := engine.SaveReplay("C13", &LCase{Prop: "C13", Consumer: "soak"})
					t.Fatalf("property C13 violated (replay %s): a NewWatcher that failed (%v; descriptor limit) changed the number of open descriptors from %d to %d", p, err, nb, na)
				}
				st.AddFeat("soak-emfile", 1)
				continue
			}
		} else if probes > 0 && i%(n/probesWanted+1) == 5 {
			// the per-user instance limit itself
			probes--
			ww, e, nb, na, ok := instanceLimitNewWatcher(i % 3)
			for attempt := 0; !ok && attempt < 5; attempt++ {
				if ww != nil { // somebody released an instance in between: try again
					ww.Close()
				}
				ww, e, nb, na, ok = instanceLimitNewWatcher(i % 3)
			}
			switch {
			case !ok:
				if ww != nil {
					ww.Close()
				}
				st.AddFeat("soak-instance-limit-not-reached", 1)
			case ww != nil:
				t.Fatalf("property C13 violated: failed NewWatcher returned a Watcher")
			case na != nb:
				p := engine.SaveReplay("C13", &LCase{Prop: "C13", Consumer: "soak"})
				t.Fatalf("property C13 violated (replay %s): a NewWatcher that failed (%v; per-user instance limit reached) changed the number of open descriptors from %d to %d", p, e, nb, na)
			default:
				st.AddFeat("soak-instance-limit-failures", 1)
			}
			continue
		} else {
			w, err = engine.NewWatcherRetry(i % 3)
		}
		if err != nil {
			engine.ExitInconclusive("NewWatcher: " + err.Error())
		}
		w.Add(dir + "/d")
		os.WriteFile(fmt.Sprintf("%s/d/f%d", dir, i%5), []byte("x"), 0o644)
		if i%2 == 0 {
			select {
			case <-w.Events:
			case <-time.After(watchdog):
			}
		}
		w.Close()
		for range w.Events {
		}
		for range w.Errors {
		}
		st.Eval()
	}
	if v := settled(base, fmt.Sprintf("after %d create/use/close cycles", n)); v != "" {
		p := engine.SaveReplay("C13", &LCase{Prop: "C13", Consumer: "soak"})
		t.Fatalf("property C13 violated (replay %s): %s", p, v)
	}
	st.Extra["soak_cycles"] = n
}

func TestReplayC13(t *testing.T) {
	c := loadLCase(t)
	engine.StatsFor("C13").Eval()
	if c.Consumer == "soak" {
		TestC13Soak(t)
		return
	}
	if viol, _, _ := runC13(c, c.ClosePos == 1); viol != "" {
		fail(nil, t, "C13", c, "%s", viol)
	}
}
