package life

import (
	"fmt"
	"os"
	"path/filepath"
	"sort"
	"strings"
	"sync"
	"sync/atomic"
	"testing"
	"time"

	"github.com/anishathalye/porcupine"
	"pgregory.net/rapid"

	"verif/harness/engine"
)

// universe of the linearizability programmes; the objects these paths name do
// not change during the concurrent phase, so the sequential specification is a
// pure function of the order of calls.
var c07Inode = map[string]int{"d0": 1, "ld0": 1, "./d0": 1, "d0/": 1, "d1": 2, "d0/f": 3, "ld0/f": 3, "u": 4, "missing": 0, "d0/missing": 0}
var c07Paths = []string{"d0", "ld0", "./d0", "d0/", "d1", "d0/f", "ld0/f", "u", "missing", "d0/missing"}

type c07In struct {
	K string
	P string
}

type c07State struct {
	closed bool
	listed string // "inode=path;..." sorted by inode
}

func c07Listed(s string) map[int]string {
	m := map[int]string{}
	for _, kv := range strings.Split(s, ";") {
		if kv == "" {
			continue
		}
		var i int
		var p string
		fmt.Sscanf(kv, "%d=", &i)
		p = kv[strings.IndexByte(kv, '=')+1:]
		m[i] = p
	}
	return m
}

func c07Encode(m map[int]string) string {
	var ks []int
	for k := range m {
		ks = append(ks, k)
	}
	sort.Ints(ks)
	var parts []string
	for _, k := range ks {
		parts = append(parts, fmt.Sprintf("%d=%s", k, m[k]))
	}
	return strings.Join(parts, ";")
}

func c07ListOut(m map[int]string) string {
	var ps []string
	for _, p := range m {
		ps = append(ps, p)
	}
	sort.Strings(ps)
	return "[" + strings.Join(ps, " ") + "]"
}

// c07Step is the sequential specification (the C04 model restricted to a
// static filesystem, plus Close).
func c07Step(state, input, output interface{}) (bool, interface{}) {
	st := state.(c07State)
	in := input.(c07In)
	out := output.(string)
	switch in.K {
	case "close":
		return out == "nil", c07State{closed: true, listed: st.listed}
	case "list":
		if st.closed {
			return out == "<closed>", st
		}
		return out == c07ListOut(c07Listed(st.listed)), st
	case "add":
		if st.closed {
			return out == "ErrClosed", st
		}
		ino := c07Inode[in.P]
		if ino == 0 {
			return out == "errno:no such file or directory", st
		}
		m := c07Listed(st.listed)
		if _, ok := m[ino]; !ok {
			m[ino] = filepath.Clean(in.P)
		}
		return out == "nil", c07State{listed: c07Encode(m)}
	case "remove":
		if st.closed {
			return out == "nil", st
		}
		m := c07Listed(st.listed)
		for ino, p := range m {
			if p == filepath.Clean(in.P) {
				delete(m, ino)
				return out == "nil", c07State{listed: c07Encode(m)}
			}
		}
		return out == "ErrNonExistentWatch", st
	}
	return false, st
}

func genC07(t *rapid.T) *LCase {
	c := &LCase{Prop: "C07"}
	c.Buf = rapid.SampledFrom([]int{-1, 0, 8, 4096}).Draw(t, "buf")
	c.Setup = []engine.Step{{K: engine.KMkdir, P: "d0"}, {K: engine.KMkdir, P: "d1"}, {K: engine.KMkdir, P: "u"},
		{K: engine.KCreate, P: "d0/f"}, {K: engine.KSymlink, P: "d0", Q: "ld0"}}
	na := rapid.IntRange(0, 3).Draw(t, "ninit")
	for i := 0; i < na; i++ {
		c.Adds = append(c.Adds, engine.P(rapid.SampledFrom(c07Paths[:8]).Draw(t, "init")))
	}
	c.Procs = rapid.SampledFrom([]int{1, 2, 4, 16}).Draw(t, "procs")
	c.Consumer = rapid.SampledFrom([]string{"both", "both", "none", "stop"}).Draw(t, "consumer")
	if c.Consumer == "stop" {
		c.StopAfter = rapid.IntRange(0, 20).Draw(t, "stopafter")
	}
	c.Churn = rapid.SampledFrom([]int{0, 0, 20, 100}).Draw(t, "churn") // churn ops per churn goroutine
	ng := rapid.IntRange(2, 4).Draw(t, "ng")
	// concentrate on one or two paths so that calls collide
	focus := rapid.SliceOfN(rapid.SampledFrom(c07Paths), 1, 3).Draw(t, "focus")
	closeAllowed := rapid.IntRange(0, 2).Draw(t, "closeallowed") == 0
	for g := 0; g < ng; g++ {
		n := rapid.IntRange(1, 4).Draw(t, "ncalls")
		for i := 0; i < n; i++ {
			k := rapid.IntRange(0, 9).Draw(t, "kind")
			p := engine.P(rapid.SampledFrom(focus).Draw(t, "p"))
			switch {
			case k <= 3:
				c.Calls = append(c.Calls, Call{G: g, K: "add", P: p})
			case k <= 6:
				c.Calls = append(c.Calls, Call{G: g, K: "remove", P: p})
			case k <= 8 || !closeAllowed:
				c.Calls = append(c.Calls, Call{G: g, K: "list"})
			default:
				c.Calls = append(c.Calls, Call{G: g, K: "close"})
			}
		}
	}
	// rarely: the programme runs while a queue-overflow error waits to be
	// taken from Errors (nobody, or only an Events reader, is there)
	genOverflow(t, c)
	if c.Overflow == 0 && engine.Pct(t, "liststorm", 12) {
		// goroutines that only ask for the list (they change nothing, so the
		// recorded history stays checkable) keep the lock contended while the
		// programme - which then contains a Close - runs; afterwards one more
		// Close must return
		c.Storm = rapid.IntRange(2, 6).Draw(t, "liststorm-n")
		c.Calls = append(c.Calls, Call{G: 0, K: "close"})
	}
	return c
}

type c07Op struct {
	in        c07In
	g         int
	call, ret int64
	out       string
}

func runC07(c *LCase) (viol string, overlaps int, feats []string) {
	defer engine.Guard()
	journal(c)
	defer setProcs(c.Procs)()
	w, err := engine.NewWorld(&engine.Case{Prop: "C07", Buf: c.Buf, Setup: c.Setup})
	if err != nil {
		engine.ExitInconclusive("setup: " + err.Error())
	}
	defer w.Destroy()
	// sequential prologue defines the initial state
	init := map[int]string{}
	for _, a := range c.Adds {
		if err := w.W.Add(string(a)); err != nil {
			return fmt.Sprintf("prologue Add(%q): %v", string(a), err), 0, nil
		}
		if _, ok := init[c07Inode[string(a)]]; !ok {
			init[c07Inode[string(a)]] = filepath.Clean(string(a))
		}
	}
	if c.Overflow > 0 {
		if p := overflowBurst(w.W, c.Overflow); p != "" {
			return "deadlock: " + p, 0, nil
		}
		feats = append(feats, "error-pending")
	}
	cons := startConsumer(w.W, c.Consumer, c.StopAfter)
	defer cons.halt()
	if c.Overflow > 0 && (c.Consumer == "events" || c.Consumer == "stop") {
		waitParkedInSendError()
	}

	var clock int64
	var mu sync.Mutex
	var ops []c07Op
	byG := map[int][]Call{}
	maxG := 0
	for _, call := range c.Calls {
		byG[call.G] = append(byG[call.G], call)
		if call.G > maxG {
			maxG = call.G
		}
	}
	start := make(chan struct{})
	var wg sync.WaitGroup
	var stopChurn int32
	// churn: event traffic on entries inside d0 and d1 so that the reader contends for the lock
	for k := 0; k < 2 && c.Churn > 0; k++ {
		k := k
		wg.Add(1)
		go func() {
			defer wg.Done()
			<-start
			for i := 0; i < c.Churn && atomic.LoadInt32(&stopChurn) == 0; i++ {
				p := fmt.Sprintf("d%d/churn-%d", k, i%3)
				os.WriteFile(p, []byte("x"), 0o644)
				if i%2 == 1 {
					os.Remove(p)
				}
			}
		}()
	}
	done := make(chan struct{})
	var cwg sync.WaitGroup
	for g := 0; g <= maxG; g++ {
		calls := byG[g]
		g := g
		cwg.Add(1)
		go lifeCall(func() {}) // keep the marker frame linked
		go func() {
			defer cwg.Done()
			<-start
			lifeCall(func() {
				for _, call := range calls {
					in := c07In{K: call.K, P: string(call.P)}
					t0 := atomic.AddInt64(&clock, 1)
					var out string
					switch call.K {
					case "add":
						out = errClass(w.W.Add(in.P))
					case "remove":
						out = errClass(w.W.Remove(in.P))
					case "close":
						out = errClass(w.W.Close())
					case "list":
						l := w.W.WatchList()
						if l == nil {
							out = "<closed>"
						} else {
							var ps []string
							for _, p := range l {
								if p != w.SentDir && p != "ovf" { // "ovf": the overflow burst's own directory
									ps = append(ps, p)
								}
							}
							sort.Strings(ps)
							out = "[" + strings.Join(ps, " ") + "]"
						}
					}
					t1 := atomic.AddInt64(&clock, 1)
					mu.Lock()
					ops = append(ops, c07Op{in: in, g: g, call: t0, ret: t1, out: out})
					mu.Unlock()
				}
			})
		}()
	}
	stormDone := make(chan string, c.Storm+1)
	for g := 0; g < c.Storm; g++ {
		go func() {
			<-start
			stormDone <- guarded("storm goroutine (WatchList loop)", func() { stormBody(w.W, 0) })
		}()
	}
	if c.Storm > 0 {
		feats = append(feats, "list-storm")
		defer func() {
			if viol != "" {
				return
			}
			for g := 0; g < c.Storm; g++ {
				if p := <-stormDone; p != "" {
					viol = "deadlock: " + p
					return
				}
			}
			if p := guarded("Close() after the programme", func() { w.W.Close() }); p != "" {
				viol = "deadlock: " + p
			}
		}()
	}
	go func() { cwg.Wait(); close(done) }()
	close(start)
	select {
	case <-done:
	case <-time.After(watchdog):
		if p := engine.BlockedProof("life.lifeCall"); p != "" {
			atomic.StoreInt32(&stopChurn, 1)
			return "deadlock: a call did not return within " + watchdog.String() + "\n" + p, 0, nil
		}
		if p := engine.SpinProof(); p != "" {
			atomic.StoreInt32(&stopChurn, 1)
			return "a call did not return within " + watchdog.String() + "; " + p, 0, nil
		}
		select {
		case <-done:
		case <-time.After(30 * time.Second):
			engine.ExitInconclusive("C07 programme is late but not provably blocked")
		}
	}
	atomic.StoreInt32(&stopChurn, 1)
	wg.Wait()

	// overlap statistics
	for i := range ops {
		for j := i + 1; j < len(ops); j++ {
			a, b := ops[i], ops[j]
			if a.g != b.g && a.call < b.ret && b.call < a.ret {
				overlaps++
				if a.in.K == "close" || b.in.K == "close" {
					feats = append(feats, "overlap-with-close")
				} else if c07Inode[a.in.P] == c07Inode[b.in.P] && a.in.K != "list" && b.in.K != "list" {
					feats = append(feats, "overlap-same-path")
				}
			}
		}
	}
	// linearizability
	model := porcupine.Model{
		Init: func() interface{} { return c07State{listed: c07Encode(init)} },
		Step: c07Step,
		DescribeOperation: func(in, out interface{}) string {
			return fmt.Sprintf("%s(%q) -> %s", in.(c07In).K, in.(c07In).P, out)
		},
	}
	var hist []porcupine.Operation
	for _, o := range ops {
		hist = append(hist, porcupine.Operation{ClientId: o.g, Input: o.in, Call: o.call, Output: o.out, Return: o.ret})
	}
	res := porcupine.CheckOperationsTimeout(model, hist, 20*time.Second)
	if res == porcupine.Unknown {
		engine.ExitInconclusive("linearizability search timed out")
	}
	if res != porcupine.Ok {
		sort.Slice(ops, func(i, j int) bool { return ops[i].call < ops[j].call })
		var b strings.Builder
		fmt.Fprintf(&b, "call/return history is not linearizable w.r.t. the sequential specification (initial list %s):\n", c07ListOut(init))
		for _, o := range ops {
			fmt.Fprintf(&b, "  g%d [%d,%d] %s(%q) -> %s\n", o.g, o.call, o.ret, o.in.K, o.in.P, o.out)
		}
		return b.String(), overlaps, feats
	}
	return "", overlaps, feats
}

func TestC07(t *testing.T) {
	st := engine.StatsFor("C07")
	rapid.Check(t, func(rt *rapid.T) {
		c := genC07(rt)
		viol, ov, feats := runC07(c)
		st.Eval()
		st.AddFeat("overlapping-call-pairs", ov)
		st.AddFeat(fmt.Sprintf("gomaxprocs-%d", c.Procs), 1)
		seen := map[string]bool{}
		for _, f := range feats {
			if !seen[f] {
				seen[f] = true
				st.AddFeat("cases-with-"+f, 1)
			}
		}
		if seen["overlap-with-close"] || seen["overlap-same-path"] {
			st.NonTrivial(c.String(), c.String())
		}
		if viol != "" {
			fail(rt, nil, "C07", c, "%s", viol)
		}
	})
}

func TestReplayC07(t *testing.T) {
	c := loadLCase(t)
	if c.Consumer == "stress" {
		TestC07Stress(t)
		return
	}
	// a schedule-dependent failure may need several attempts
	for i := 0; i < 300; i++ {
		engine.StatsFor("C07").Eval()
		if viol, _, _ := runC07(c); viol != "" {
			fail(nil, t, "C07", c, "(attempt %d) %s", i+1, viol)
		}
	}
}

// TestC07Stress: goroutines add, remove and list while others create, delete
// and rename the watched paths themselves; results must stay within the
// classes the statement allows and WatchList must never show a duplicate or a
// path that was never added.
func TestC07Stress(t *testing.T) {
	defer engine.Guard()
	st := engine.StatsFor("C07")
	rounds := 6
	if os.Getenv("VERIF_TIER") == "thorough" {
		rounds = 40
	}
	for round := 0; round < rounds; round++ {
		c := &engine.Case{Prop: "C07", Buf: []int{-1, 0, 64}[round%3], Setup: []engine.Step{{K: engine.KMkdir, P: "d0"}, {K: engine.KMkdir, P: "d1"}, {K: engine.KMkdir, P: "u"}}}
		w, err := engine.NewWorld(c)
		if err != nil {
			engine.ExitInconclusive(err.Error())
		}
		restore := setProcs([]int{1, 2, 4, 16}[round%4])
		cons := startConsumer(w.W, "both", 0)
		paths := []string{"d0", "d1", "d0/f", "d1/g", "d0/sub"}
		added := map[string]bool{w.SentDir: true}
		for _, p := range paths {
			added[p] = true
		}
		var wg sync.WaitGroup
		var bad atomic.Value
		report := func(s string) { bad.CompareAndSwap(nil, s) }
		stop := make(chan struct{})
		for g := 0; g < 4; g++ {
			g := g
			wg.Add(1)
			go func() {
				defer wg.Done()
				for i := 0; i < 150; i++ {
					p := paths[(i+g)%len(paths)]
					switch (i + g) % 3 {
					case 0:
						switch cl := errClass(w.W.Add(p)); {
						case cl == "nil", cl == "ErrClosed", strings.HasPrefix(cl, "errno:"):
						default:
							report(fmt.Sprintf("Add(%q) returned %s", p, cl))
						}
					case 1:
						switch cl := errClass(w.W.Remove(p)); {
						case cl == "nil", cl == "ErrNonExistentWatch", strings.HasPrefix(cl, "errno:"):
						default:
							report(fmt.Sprintf("Remove(%q) returned %s", p, cl))
						}
					default:
						l := w.W.WatchList()
						seen := map[string]bool{}
						for _, x := range l {
							if seen[x] {
								report(fmt.Sprintf("WatchList shows %q twice: %q", x, l))
							}
							seen[x] = true
							if !added[x] {
								report(fmt.Sprintf("WatchList shows %q, which was never added: %q", x, l))
							}
						}
					}
				}
			}()
		}
		wg.Add(1)
		go func() { // filesystem churn on the watched paths themselves
			defer wg.Done()
			for i := 0; ; i++ {
				select {
				case <-stop:
					return
				default:
				}
				os.WriteFile("d0/f", []byte("x"), 0o644)
				os.Mkdir("d0/sub", 0o755)
				os.WriteFile("d1/g", []byte("x"), 0o644)
				os.Rename("d0/f", "u/f")
				os.Remove("d1/g")
				os.Remove("d0/sub")
				os.Remove("u/f")
				if i%5 == 4 {
					os.Rename("d1", "u/d1")
					os.Rename("u/d1", "d1")
				}
			}
		}()
		fin := make(chan struct{})
		go func() { wg.Wait(); close(fin) }()
		// the API goroutines finish by themselves; then stop the churn
		go func() {
			time.Sleep(time.Millisecond)
		}()
		apiDone := make(chan struct{})
		go func() {
			// wait for the four API goroutines: they are the first four Done calls; simply poll
			for {
				select {
				case <-fin:
					close(apiDone)
					return
				case <-time.After(50 * time.Millisecond):
					// stop churn after a bounded time as well
				}
				select {
				case <-stop:
				default:
				}
			}
		}()
		// bounded run: stop the churn after 300 ms; API loops are finite
		time.AfterFunc(300*time.Millisecond, func() { close(stop) })
		select {
		case <-fin:
		case <-time.After(watchdog + 10*time.Second):
			if p := engine.BlockedProof("fsnotify.(*inotify)."); p != "" {
				t.Fatalf("property C07 violated (replay %s): stress round %d: deadlock\n%s", engine.SaveReplay("C07", &LCase{Prop: "C07", Consumer: "stress"}), round, p)
			}
			engine.ExitInconclusive("stress round late")
		}
		cons.halt()
		restore()
		w.Destroy()
		st.Eval()
		st.AddFeat("stress-rounds", 1)
		if v := bad.Load(); v != nil {
			t.Fatalf("property C07 violated (replay %s): stress round %d: %s", engine.SaveReplay("C07", &LCase{Prop: "C07", Consumer: "stress"}), round, v)
		}
	}
}
