package life

import (
	"errors"
	"fmt"
	"strings"
	"sync"
	"sync/atomic"
	"testing"
	"time"

	"github.com/fsnotify/fsnotify"
	"golang.org/x/sys/unix"
	"pgregory.net/rapid"

	"verif/harness/engine"
)

func genC06(t *rapid.T, prop string) *LCase {
	c := &LCase{Prop: prop}
	c.Buf = rapid.SampledFrom([]int{-1, 0, 1, 8, 4096}).Draw(t, "buf")
	setup, files, dirs := genSetup(t)
	c.Setup = setup
	for _, d := range dirs {
		if rapid.IntRange(0, 3).Draw(t, "adddir") > 0 {
			c.Adds = append(c.Adds, engine.P(d))
		}
	}
	for _, f := range files {
		if rapid.IntRange(0, 3).Draw(t, "addfile") <= 1 {
			c.Adds = append(c.Adds, engine.P(f))
		}
	}
	if len(c.Adds) == 0 {
		c.Adds = append(c.Adds, "d0")
	}
	c.Plug = rapid.IntRange(0, 9).Draw(t, "plug") < 5
	c.Reach = genFsOps(t, "reach", files, dirs, 0, 25)
	if rapid.IntRange(0, 9).Draw(t, "invalidate") < 5 {
		w := string(rapid.SampledFrom(c.Adds).Draw(t, "victim"))
		isDir := w == "d0" || w == "d1" || w == "d0/sub"
		c.Reach = append(c.Reach, genInvalidate(t, w, isDir)...)
	}
	c.Consumer = rapid.SampledFrom([]string{"both", "both", "none", "events", "errors", "stop"}).Draw(t, "consumer")
	if c.Consumer == "stop" {
		c.StopAfter = rapid.IntRange(0, 10).Draw(t, "stopafter")
	}
	// calls running concurrently with Close
	n := rapid.IntRange(0, 4).Draw(t, "ncalls")
	for i := 0; i < n; i++ {
		switch rapid.IntRange(0, 5).Draw(t, "call") {
		case 0, 1:
			c.Calls = append(c.Calls, Call{K: "add", P: engine.P(rapid.SampledFrom([]string{"d0", "d1", "u", "ld0", "d0/a", "missing"}).Draw(t, "addp"))})
		case 2:
			c.Calls = append(c.Calls, Call{K: "remove", P: engine.P(rapid.SampledFrom([]string{"d0", "d1", "u", "d0/a"}).Draw(t, "rmp"))})
		case 3:
			c.Calls = append(c.Calls, Call{K: "list"})
		default:
			c.Calls = append(c.Calls, Call{K: "close"})
		}
	}
	// after Close: changes with fresh names
	ns := rapid.IntRange(0, 6).Draw(t, "nsuffix")
	for i := 0; i < ns; i++ {
		d := rapid.SampledFrom(dirs).Draw(t, "sd")
		p := engine.P(fmt.Sprintf("%s/post-%d", d, i))
		c.Suffix = append(c.Suffix, engine.Step{K: engine.KCreate, P: p})
		if rapid.Bool().Draw(t, "swrite") {
			c.Suffix = append(c.Suffix, engine.Step{K: engine.KWrite, P: p, N: 1})
		}
	}
	c.Procs = rapid.SampledFrom([]int{0, 1, 2, 4, 16}).Draw(t, "procs")
	if engine.Pct(t, "storm", 15) {
		// many goroutines hammering the API while Close runs: the lock is
		// contended when the closed flag flips
		c.Storm = rapid.IntRange(4, 12).Draw(t, "storm-n")
	}
	genOverflow(t, c)
	return c
}

type c06Result struct {
	viol       string
	nontrivial bool
	feats      []string
}

// drainClosed receives from both channels until both are closed.
func drainClosed(w *fsnotify.Watcher, sawPost *string) string {
	ev, er := w.Events, w.Errors
	t := time.NewTimer(watchdog)
	defer t.Stop()
	for ev != nil || er != nil {
		select {
		case e, ok := <-ev:
			if !ok {
				ev = nil
				continue
			}
			if strings.Contains(e.Name, "/post-") {
				*sawPost = e.String()
			}
		case _, ok := <-er:
			if !ok {
				er = nil
			}
		case <-t.C:
			open := "Events"
			if ev == nil {
				open = "Errors"
			}
			var reader string
			for _, g := range engine.FsnotifyGoroutines() {
				if strings.Contains(g, "readEvents") {
					reader = g
				}
			}
			if reader == "" {
				return open + " is still open " + watchdog.String() + " after Close returned and no reader goroutine exists that could close it"
			}
			if p := engine.BlockedProof("readEvents"); p != "" {
				return open + " is still open " + watchdog.String() + " after Close returned; the reader goroutine is blocked:\n" + p
			}
			engine.ExitInconclusive("channels not closed after Close, reader still running:\n" + reader)
		}
	}
	return ""
}

// keepAlive holds the Worlds of finished cases reachable until the resource
// probes of C13 have looked: an unreachable Watcher's os.File finalizer would
// close a leaked descriptor behind our back and hide the leak.
var keepAlive []*engine.World

func runC06(c *LCase) (r c06Result) {
	defer engine.Guard()
	journal(c)
	defer setProcs(c.Procs)()
	w, err := engine.NewWorld(&engine.Case{Prop: c.Prop, Buf: c.Buf, Setup: c.Setup})
	if err != nil {
		engine.ExitInconclusive("setup: " + err.Error())
	}
	defer w.Destroy()
	if c.Prop == "C13" {
		keepAlive = append(keepAlive, w)
		// a descriptor that is not close-on-exec is inherited by every child
		// process started meanwhile: Close then releases only this process's
		// copy, the kernel instance and all its watches live on in the child
		if fl, err := unix.FcntlInt(uintptr(w.Wfd), unix.F_GETFD, 0); err == nil && fl&unix.FD_CLOEXEC == 0 {
			r.viol = fmt.Sprintf("the Watcher's notification descriptor %d is not close-on-exec: a child process started while the Watcher exists keeps the kernel instance and all its watches alive after Close", w.Wfd)
			return
		}
	}
	// a call that never returns before Close is C05's business; what matters
	// here is what Close does in that state
	stuck := ""
	for _, a := range c.Adds {
		a := string(a)
		if stuck == "" {
			stuck = guarded(fmt.Sprintf("Add(%q)", a), func() { w.W.Add(a) })
		}
	}
	var cons *consumer
	if !c.Plug {
		cons = startConsumer(w.W, c.Consumer, c.StopAfter)
	} else {
		w.Plug()
		if w.Failed() {
			r.viol = fmt.Sprint(w.Findings)
			return
		}
	}
	for _, s := range c.Reach {
		w.FsOp(s)
	}
	if c.Overflow > 0 && stuck == "" {
		stuck = overflowBurst(w.W, c.Overflow)
		r.feats = append(r.feats, "close-with-error-pending")
	}
	if stuck != "" {
		if proof, ok := withWatchdog("Close()", func() { w.W.Close() }); !ok {
			r.viol = "Close never completes, the channels are never closed: " + proof + "\n\nbefore that: " + stuck
		}
		return
	}
	pending, _ := engine.Fionread(w.Wfd)
	if cons == nil {
		cons = startConsumer(w.W, c.Consumer, c.StopAfter)
	}
	if c.Overflow > 0 && (c.Consumer == "events" || c.Consumer == "stop") {
		waitParkedInSendError()
	}
	halted := false
	defer func() {
		if !halted {
			cons.halt()
		}
	}()
	if pending > 0 {
		r.feats = append(r.feats, "close-with-kernel-queue-nonempty")
	}
	if c.Plug {
		r.feats = append(r.feats, "close-with-reader-parked")
	}
	if len(c.Calls) > 0 {
		r.feats = append(r.feats, "close-concurrent-with-calls")
	}
	r.nontrivial = pending > 0 || c.Plug || len(c.Calls) > 0

	// Close, concurrently with the programme
	var wg sync.WaitGroup
	var mu sync.Mutex
	var viol []string
	start := make(chan struct{})
	launch := func(what string, f func()) {
		wg.Add(1)
		go func() {
			defer wg.Done()
			<-start
			if proof, ok := withWatchdog(what, f); !ok {
				mu.Lock()
				viol = append(viol, proof)
				mu.Unlock()
			}
		}()
	}
	atomic.StoreInt64(&stormIters, 0)
	launch("Close()", func() {
		if c.Storm > 0 {
			midStorm(c.Storm * 25)
		}
		w.W.Close()
	})
	for _, call := range c.Calls {
		call := call
		launch(call.String(), func() {
			switch call.K {
			case "add":
				w.W.Add(string(call.P))
			case "remove":
				w.W.Remove(string(call.P))
			case "list":
				w.W.WatchList()
			case "close":
				w.W.Close()
			}
		})
	}
	if c.Storm > 0 {
		r.feats = append(r.feats, "close-during-api-storm")
		for g := 0; g < c.Storm; g++ {
			g := g
			launch(fmt.Sprintf("storm goroutine %d (Add/WatchList/Remove loop)", g), func() { stormBody(w.W, g) })
		}
	}
	close(start)
	wg.Wait()
	if len(viol) > 0 {
		r.viol = strings.Join(viol, "\n")
		return
	}
	// Close has returned: API is inert
	inert := ""
	if proof, ok := withWatchdog("Add/Remove/WatchList after Close", func() {
		for _, p := range []string{"d0", "d1", "u", "missing", "d0/a", string(c.Adds[0])} {
			if err := w.W.Add(p); !errors.Is(err, fsnotify.ErrClosed) {
				inert = fmt.Sprintf("after Close returned, Add(%q) = %v, want ErrClosed", p, err)
				return
			}
			if err := w.W.Remove(p); err != nil {
				inert = fmt.Sprintf("after Close returned, Remove(%q) = %v, want nil", p, err)
				return
			}
		}
		if l := w.W.WatchList(); l != nil {
			inert = fmt.Sprintf("after Close returned, WatchList() = %q, want nil", l)
		}
	}); !ok {
		r.viol = proof
		return
	}
	if inert != "" {
		r.viol = inert
		return
	}
	var err2 error
	if proof, ok := withWatchdog("Close() after Close", func() { err2 = w.W.Close() }); !ok {
		r.viol = proof
		return
	}
	if err2 != nil {
		r.viol = fmt.Sprintf("second Close returned %v", err2)
		return
	}
	// changes after Close, under fresh names
	for _, s := range c.Suffix {
		w.FsOp(s)
	}
	cons.halt()
	halted = true
	var sawPost string
	cons.mu.Lock()
	for _, e := range cons.events {
		if strings.Contains(e.Name, "/post-") {
			sawPost = e.String()
		}
	}
	cons.mu.Unlock()
	if v := drainClosed(w.W, &sawPost); v != "" {
		r.viol = v
		return
	}
	if sawPost != "" {
		r.viol = "event for a change made after Close had returned: " + sawPost
		return
	}
	// both channels are closed: any later send would panic the process
	return
}

func TestC06(t *testing.T) {
	st := engine.StatsFor("C06")
	rapid.Check(t, func(rt *rapid.T) {
		c := genC06(rt, "C06")
		r := runC06(c)
		st.Eval()
		st.AddFeat("consumer-"+c.Consumer, 1)
		for _, f := range r.feats {
			st.AddFeat(f, 1)
		}
		if r.nontrivial {
			st.NonTrivial(c.String(), c.String())
		}
		if r.viol != "" {
			fail(rt, nil, "C06", c, "%s", r.viol)
		}
	})
}

func TestReplayC06(t *testing.T) {
	c := loadLCase(t)
	engine.StatsFor("C06").Eval()
	if r := runC06(c); r.viol != "" {
		fail(nil, t, "C06", c, "%s", r.viol)
	}
}
