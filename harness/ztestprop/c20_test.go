package ztest

import (
	"fmt"
	"os"
	"strconv"
	"strings"
	"testing"
	"time"
	"unicode/utf8"

	"pgregory.net/rapid"

	"verif/harness/engine"
)

func TestMain(m *testing.M) { engine.Main(m) }

// ---------------------------------------------------------------- Diff oracle

func vfLines(s string) []string {
	// every line, including the last, is terminated: the unit Diff works on
	parts := strings.Split(strings.TrimSpace(s), "\n")
	for i := range parts {
		parts[i] += "\n"
	}
	return parts
}

type vfHunk struct {
	aStart, aLen, bStart, bLen int
	body                       []string // with 6-byte prefixes
}

func vfParseRange(s string) (start, n int, err error) {
	if i := strings.IndexByte(s, ','); i >= 0 {
		start, err = strconv.Atoi(s[:i])
		if err != nil {
			return
		}
		n, err = strconv.Atoi(s[i+1:])
		if n == 1 {
			err = fmt.Errorf("range %q spells out length 1", s)
		}
		return
	}
	start, err = strconv.Atoi(s)
	return start, 1, err
}

// vfCheckDiff verifies Diff(have, want) against an independent patch applier.
func vfCheckDiff(have, want string) (err error) {
	defer func() {
		if r := recover(); r != nil {
			err = fmt.Errorf("Diff panicked: %v", r)
		}
	}()
	d := Diff(have, want)
	equal := strings.TrimSpace(have) == strings.TrimSpace(want)
	if equal != (d == "") {
		return fmt.Errorf("texts equal after trimming = %v, but Diff returned %q", equal, d)
	}
	if equal {
		return nil
	}
	const header = "\n--- have\n+++ want\n"
	if !strings.HasPrefix(d, header) {
		return fmt.Errorf("diff does not start with the have/want header: %q", d)
	}
	rest := d[len(header):]
	A, B := vfLines(have), vfLines(want)
	var out []string
	apos := 0 // vfLines of A consumed
	nh := 0
	for rest != "" {
		nl := strings.IndexByte(rest, '\n')
		if nl < 0 {
			return fmt.Errorf("unterminated vfHunk header in %q", d)
		}
		hl := rest[:nl]
		rest = rest[nl+1:]
		var ra, rb string
		if !strings.HasPrefix(hl, "@@ -") || !strings.HasSuffix(hl, " @@") {
			return fmt.Errorf("expected a vfHunk header, found %q in %q", hl, d)
		}
		f := strings.Fields(hl)
		if len(f) != 4 || f[1][0] != '-' || f[2][0] != '+' {
			return fmt.Errorf("malformed vfHunk header %q", hl)
		}
		ra, rb = f[1][1:], f[2][1:]
		as, al, err := vfParseRange(ra)
		if err != nil {
			return fmt.Errorf("hunk header %q: %v", hl, err)
		}
		bs, bl, err := vfParseRange(rb)
		if err != nil {
			return fmt.Errorf("hunk header %q: %v", hl, err)
		}
		nh++
		// 0-based start positions; an empty range names the line before it
		a0, b0 := as-1, bs-1
		if al == 0 {
			a0 = as
		}
		if bl == 0 {
			b0 = bs
		}
		if a0 < apos {
			return fmt.Errorf("hunk %q overlaps or precedes the previous vfHunk (already at line %d of have)", hl, apos)
		}
		if a0 > len(A) || a0+al > len(A) {
			return fmt.Errorf("hunk %q reaches beyond have (%d vfLines)", hl, len(A))
		}
		out = append(out, A[apos:a0]...)
		apos = a0
		if len(out) != b0 {
			return fmt.Errorf("hunk %q: want-side start is %d but %d vfLines precede it", hl, b0+1, len(out))
		}
		ca, cb := 0, 0
		lead, trail := 0, 0
		changed := false
		for ca < al || cb < bl {
			if len(rest) < 6 {
				return fmt.Errorf("hunk %q: body ends early (%d/%d have vfLines, %d/%d want vfLines)", hl, ca, al, cb, bl)
			}
			pre := rest[:6]
			nl := strings.IndexByte(rest, '\n')
			if nl < 0 {
				return fmt.Errorf("hunk %q: unterminated body line", hl)
			}
			line := rest[6 : nl+1]
			rest = rest[nl+1:]
			switch pre {
			case "      ":
				if apos >= len(A) || A[apos] != line {
					return fmt.Errorf("hunk %q: context line %q does not match have line %d", hl, line, apos+1)
				}
				out = append(out, line)
				apos++
				ca++
				cb++
				if !changed {
					lead++
				}
				trail++
			case "-have ":
				if apos >= len(A) || A[apos] != line {
					return fmt.Errorf("hunk %q: removed line %q does not match have line %d", hl, line, apos+1)
				}
				apos++
				ca++
				changed = true
				trail = 0
			case "+want ":
				out = append(out, line)
				cb++
				changed = true
				trail = 0
			default:
				return fmt.Errorf("hunk %q: body line with unknown prefix %q", hl, pre)
			}
		}
		if ca != al || cb != bl {
			return fmt.Errorf("hunk header %q disagrees with its body: %d have vfLines, %d want lines", hl, ca, cb)
		}
		if !changed {
			return fmt.Errorf("hunk %q contains no change", hl)
		}
		if lead > 3 || trail > 3 {
			return fmt.Errorf("hunk %q has %d leading / %d trailing unchanged vfLines (max 3)", hl, lead, trail)
		}
	}
	if nh == 0 {
		return fmt.Errorf("texts differ but the diff has no vfHunk: %q", d)
	}
	out = append(out, A[apos:]...)
	if strings.Join(out, "") != strings.Join(B, "") || len(out) != len(B) {
		return fmt.Errorf("applying the hunks to have gives %q, want %q\ndiff: %q", out, B, d)
	}
	return nil
}

type vfC20Replay struct {
	Prop string `json:"prop"`
	Kind string `json:"kind"`
	Have string `json:"have_quoted"`
	Want string `json:"want_quoted"`
	Msg  string `json:"msg"`
}

func (r vfC20Replay) Save(p string) error { return engine.SaveJSON(p, r) }

func vfFail20(t interface{ Fatalf(string, ...any) }, kind, have, want string, err error) {
	r := vfC20Replay{Prop: "C20", Kind: kind, Have: strconv.QuoteToASCII(have), Want: strconv.QuoteToASCII(want), Msg: err.Error()}
	p := engine.SaveReplay("C20", r)
	t.Fatalf("property C20 violated (replay %s): have=%q want=%q: %v", p, have, want, err)
}

func TestC20Exhaustive(t *testing.T) {
	st := engine.StatsFor("C20")
	alpha := []string{"a", "b", ""}
	var seqs []string
	var rec func(prefix []string, n int)
	rec = func(prefix []string, n int) {
		seqs = append(seqs, strings.Join(prefix, "\n"))
		if n == 0 {
			return
		}
		for _, x := range alpha {
			rec(append(prefix[:len(prefix):len(prefix)], x), n-1)
		}
	}
	rec(nil, 5)
	n := 0
	for _, h := range seqs {
		for _, w := range seqs {
			n++
			if err := vfCheckDiff(h, w); err != nil {
				vfFail20(t, "diff", h, w, err)
			}
		}
	}
	st.AddEval(n)
	st.Extra["exhaustive_pairs"] = n
	st.Extra["exhaustive_alphabet3_len5"] = true
	st.NonTrivial("exh", fmt.Sprintf("all %d pairs of line sequences over {a,b,\"\"} up to length 5, e.g. have=%q want=%q -> %q", n, "a\nb\n\na", "b\na\na", Diff("a\nb\n\na", "b\na\na")))
}

// genText draws a long text with many repeated vfLines, then an edited copy.
func vfGenPair(t *rapid.T) (string, string) {
	vocab := []string{"alpha", "beta", "", "  indented", "x", "trailing  ", "{", "}", "@@ -1 +1 @@", "-have x", "+want y", "      ", "\r", "é日本",
		"load 50% done", "%", "%%", "%d items", "100%", "%s %v %!", "%(ANY)", "\\n", "\x00", "a\tb"}
	nv := rapid.IntRange(2, len(vocab)).Draw(t, "nvocab")
	// a rotated window of the vocabulary: few distinct lines, many repeats,
	// every entry reachable
	rot := rapid.IntRange(0, len(vocab)-1).Draw(t, "rot")
	vocab = append(append([]string(nil), vocab[rot:]...), vocab[:rot]...)
	line := rapid.SampledFrom(vocab[:nv])
	base := rapid.SliceOfN(line, 0, rapid.SampledFrom([]int{3, 8, 30, 120, 400}).Draw(t, "maxlen")).Draw(t, "base")
	other := append([]string(nil), base...)
	nedits := rapid.IntRange(0, 6).Draw(t, "nedits")
	for i := 0; i < nedits; i++ {
		pos := rapid.IntRange(0, len(other)).Draw(t, "pos")
		switch rapid.IntRange(0, 2).Draw(t, "edit") {
		case 0: // insert block
			blk := rapid.SliceOfN(line, 1, 5).Draw(t, "ins")
			other = append(other[:pos:pos], append(blk, other[pos:]...)...)
		case 1: // delete block
			n := rapid.IntRange(0, 5).Draw(t, "del")
			if pos+n > len(other) {
				n = len(other) - pos
			}
			other = append(other[:pos:pos], other[pos+n:]...)
		default: // replace block
			n := rapid.IntRange(0, 4).Draw(t, "repn")
			if pos+n > len(other) {
				n = len(other) - pos
			}
			blk := rapid.SliceOfN(line, 1, 4).Draw(t, "rep")
			other = append(other[:pos:pos], append(blk, other[pos+n:]...)...)
		}
	}
	ws := rapid.SampledFrom([]string{"", "\n", " ", "\n\n", "\t", " \n "})
	have := ws.Draw(t, "lead1") + strings.Join(base, "\n") + ws.Draw(t, "trail1")
	want := ws.Draw(t, "lead2") + strings.Join(other, "\n") + ws.Draw(t, "trail2")
	if rapid.Bool().Draw(t, "swap") {
		have, want = want, have
	}
	return have, want
}

func TestC20(t *testing.T) {
	st := engine.StatsFor("C20")
	rapid.Check(t, func(rt *rapid.T) {
		have, want := vfGenPair(rt)
		st.Eval()
		if err := vfCheckDiff(have, want); err != nil {
			vfFail20(rt, "diff", have, want, err)
		}
		d := Diff(have, want)
		if strings.Count(d, "@@ -") >= 1 && len(vfLines(have)) > 8 {
			st.NonTrivial(fmt.Sprintf("%d/%d/%d", len(vfLines(have)), len(vfLines(want)), strings.Count(d, "\n@@ -")),
				fmt.Sprintf("have %d lines, want %d lines, diff %q", len(vfLines(have)), len(vfLines(want)), vfTrunc(d, 300)))
		}
	})
}

func vfTrunc(s string, n int) string {
	if len(s) > n {
		return s[:n] + "…"
	}
	return s
}

// ----------------------------------------------------------- DiffMatch oracle

type vfTok struct {
	lit      string // literal text, or
	class    byte   // 'a' any (not newline), 'd' digit, 'u' uuid
	min, max int    // rune counts; max < 0 = unbounded
}

func (k vfTok) String() string {
	switch {
	case k.class == 0:
		return k.lit
	case k.class == 'u':
		return "%(UUID)"
	}
	name := map[byte]string{'a': "ANY", 'd': "NUMBER"}[k.class]
	switch {
	case k.min == 1 && k.max < 0:
		return "%(" + name + ")"
	case k.max < 0:
		return fmt.Sprintf("%%(%s %d,)", name, k.min)
	case k.min == k.max:
		return fmt.Sprintf("%%(%s %d)", name, k.min)
	}
	return fmt.Sprintf("%%(%s %d,%d)", name, k.min, k.max)
}

func vfIsHex(r rune) bool {
	return r >= '0' && r <= '9' || r >= 'a' && r <= 'f' || r >= 'A' && r <= 'F'
}

func vfMatchUUID(rs []rune) int {
	groups := []int{8, 4, 4, 4, 12}
	i := 0
	for g, n := range groups {
		if g > 0 {
			if i >= len(rs) || rs[i] != '-' {
				return -1
			}
			i++
		}
		for k := 0; k < n; k++ {
			if i >= len(rs) || !vfIsHex(rs[i]) {
				return -1
			}
			i++
		}
	}
	return i
}

// vfMatch reports whether the whole of rs matches toks (independent of regexp).
func vfMatch(toks []vfTok, rs []rune) bool {
	type key struct{ t, p int }
	memo := map[key]bool{}
	var m func(t, p int) bool
	m = func(t, p int) bool {
		if t == len(toks) {
			return p == len(rs)
		}
		k := key{t, p}
		if v, ok := memo[k]; ok {
			return v
		}
		res := false
		tk := toks[t]
		switch {
		case tk.class == 0:
			lr := []rune(tk.lit)
			if p+len(lr) <= len(rs) && string(rs[p:p+len(lr)]) == tk.lit {
				res = m(t+1, p+len(lr))
			}
		case tk.class == 'u':
			if n := vfMatchUUID(rs[p:]); n >= 0 {
				res = m(t+1, p+n)
			}
		default:
			for n := 0; p+n <= len(rs); n++ {
				if n > 0 {
					r := rs[p+n-1]
					if r == '\n' || tk.class == 'd' && (r < '0' || r > '9') {
						break
					}
				}
				if tk.max >= 0 && n > tk.max {
					break
				}
				if n >= tk.min && m(t+1, p+n) {
					res = true
					break
				}
			}
		}
		memo[k] = res
		return res
	}
	return m(0, 0)
}

// The date placeholders are documented as UTC. The process's local zone is set
// to one in which the calendar date differs from the UTC date right now, so
// that an expansion in local time is told apart (the oracle uses UTC only; if
// the run crosses the hour where the two dates coincide the check merely loses
// this sensitivity).
func init() {
	if h := time.Now().UTC().Hour(); h < 11 {
		time.Local = time.FixedZone("verif-12", -12*3600)
	} else {
		time.Local = time.FixedZone("verif+14", 14*3600)
	}
}

var vfLitAlphabet = []rune("ab 1.\n*+?()[]{}|^$\\-é")

func vfGenTemplate(t *rapid.T) (toks []vfTok, tmpl string, have string) {
	n := rapid.IntRange(1, 7).Draw(t, "ntok")
	now := time.Now().UTC()
	var hb strings.Builder
	mutate := rapid.IntRange(-1, n-1).Draw(t, "mutate") // token instantiated non-conformingly; -1 = none
	for i := 0; i < n; i++ {
		kind := rapid.IntRange(0, 9).Draw(t, "tokkind")
		var k vfTok
		var inst string
		switch {
		case kind <= 3:
			l := string(rapid.SliceOfN(rapid.SampledFrom(vfLitAlphabet), 1, 8).Draw(t, "lit"))
			l = strings.ReplaceAll(l, "%(", "%_")
			k = vfTok{lit: l}
			inst = l
			if i == mutate {
				inst = l + "x"
			}
		case kind == 4:
			which := rapid.SampledFrom([]string{"YEAR", "MONTH", "DAY"}).Draw(t, "date")
			val := map[string]string{"YEAR": fmt.Sprintf("%d", now.Year()), "MONTH": fmt.Sprintf("%02d", now.Month()), "DAY": fmt.Sprintf("%02d", now.Day())}[which]
			k = vfTok{lit: val}
			tmpl += "%(" + which + ")"
			inst = val
			if i == mutate {
				inst = "0" + val
			}
			toks = append(toks, k)
			hb.WriteString(inst)
			continue
		case kind == 5:
			k = vfTok{class: 'u'}
			hexs := []rune("0123456789abcdefABCDEF")
			var u strings.Builder
			for g, gl := range []int{8, 4, 4, 4, 12} {
				if g > 0 {
					u.WriteByte('-')
				}
				for j := 0; j < gl; j++ {
					u.WriteRune(rapid.SampledFrom(hexs).Draw(t, "hex"))
				}
			}
			inst = u.String()
			if i == mutate {
				inst = inst[:len(inst)-1] + "g"
			}
		default:
			class := byte('a')
			if kind >= 8 {
				class = 'd'
			}
			form := rapid.IntRange(0, 3).Draw(t, "form")
			lo := rapid.IntRange(0, 6).Draw(t, "lo")
			hi := lo + rapid.IntRange(0, 5).Draw(t, "span")
			switch form {
			case 0:
				k = vfTok{class: class, min: 1, max: -1}
			case 1:
				k = vfTok{class: class, min: lo, max: lo}
			case 2:
				k = vfTok{class: class, min: lo, max: -1}
			default:
				k = vfTok{class: class, min: lo, max: hi}
			}
			cnt := k.min
			if k.max < 0 {
				cnt += rapid.IntRange(0, 4).Draw(t, "more")
			} else {
				cnt = rapid.IntRange(k.min, k.max).Draw(t, "cnt")
			}
			if i == mutate {
				switch {
				case k.max >= 0 && rapid.Bool().Draw(t, "toolong"):
					cnt = k.max + 1
				case k.min > 0:
					cnt = k.min - 1
				default:
					cnt = -1 // inject a newline instead
				}
			}
			var b strings.Builder
			for j := 0; j < cnt; j++ {
				if class == 'd' {
					b.WriteRune(rapid.RuneFrom([]rune("0123456789")).Draw(t, "digit"))
				} else {
					b.WriteRune(rapid.RuneFrom([]rune("ab1 é.*%)")).Draw(t, "anych"))
				}
			}
			inst = b.String()
			if cnt == -1 {
				inst = "\n"
			}
			if i == mutate && class == 'd' && cnt > 0 && rapid.Bool().Draw(t, "nondigit") {
				inst = "x" + inst[1:]
			}
		}
		toks = append(toks, k)
		tmpl += k.String()
		hb.WriteString(inst)
	}
	return toks, tmpl, hb.String()
}

func vfCheckDiffMatch(toks []vfTok, tmpl, have string) (matched bool, err error) {
	defer func() {
		if r := recover(); r != nil {
			err = fmt.Errorf("DiffMatch(%q, %q) panicked: %v", have, tmpl, r)
		}
	}()
	d1 := time.Now().UTC().Format("2006-01-02")
	got := DiffMatch(have, tmpl)
	if time.Now().UTC().Format("2006-01-02") != d1 {
		return false, nil // straddles midnight: discard
	}
	want := vfMatch(toks, []rune(have))
	if (got == "") != want {
		return want, fmt.Errorf("template %q, text %q: independent matcher says match=%v, DiffMatch returned %q", tmpl, have, want, got)
	}
	return want, nil
}

func TestC20Match(t *testing.T) {
	st := engine.StatsFor("C20")
	rapid.Check(t, func(rt *rapid.T) {
		toks, tmpl, have := vfGenTemplate(rt)
		if !utf8.ValidString(have) {
			rt.Skip()
		}
		st.Eval()
		m, err := vfCheckDiffMatch(toks, tmpl, have)
		if err != nil {
			vfFail20(rt, "match", have, tmpl, err)
		}
		st.AddFeat(fmt.Sprintf("diffmatch-match=%v", m), 1)
		if len(toks) >= 3 {
			st.NonTrivial("m:"+tmpl, fmt.Sprintf("DiffMatch(%q, %q): match=%v", vfTrunc(have, 80), vfTrunc(tmpl, 120), m))
		}
	})
}

func TestReplayC20(t *testing.T) {
	p := os.Getenv("VERIF_REPLAY")
	if p == "" {
		t.Skip()
	}
	var r vfC20Replay
	if err := engine.LoadJSON(p, &r); err != nil {
		t.Fatal(err)
	}
	have, _ := strconv.Unquote(r.Have)
	want, _ := strconv.Unquote(r.Want)
	engine.StatsFor("C20").Eval()
	switch r.Kind {
	case "diff":
		if err := vfCheckDiff(have, want); err != nil {
			t.Fatalf("property C20 violated (replay %s): %v", p, err)
		}
	case "match":
		toks, err := vfParseTemplate(want)
		if err != nil {
			t.Fatal(err)
		}
		if _, err := vfCheckDiffMatch(toks, want, have); err != nil {
			t.Fatalf("property C20 violated (replay %s): %v", p, err)
		}
	}
}

// vfParseTemplate re-reads a template produced by vfGenTemplate (replay only).
func vfParseTemplate(s string) ([]vfTok, error) {
	var toks []vfTok
	now := time.Now().UTC()
	for s != "" {
		i := strings.Index(s, "%(")
		if i < 0 {
			toks = append(toks, vfTok{lit: s})
			break
		}
		if i > 0 {
			toks = append(toks, vfTok{lit: s[:i]})
		}
		j := strings.IndexByte(s[i:], ')')
		if j < 0 {
			return nil, fmt.Errorf("bad template")
		}
		body := s[i+2 : i+j]
		s = s[i+j+1:]
		f := strings.Fields(body)
		switch f[0] {
		case "YEAR":
			toks = append(toks, vfTok{lit: fmt.Sprintf("%d", now.Year())})
		case "MONTH":
			toks = append(toks, vfTok{lit: fmt.Sprintf("%02d", now.Month())})
		case "DAY":
			toks = append(toks, vfTok{lit: fmt.Sprintf("%02d", now.Day())})
		case "UUID":
			toks = append(toks, vfTok{class: 'u'})
		case "ANY", "NUMBER":
			k := vfTok{class: 'a', min: 1, max: -1}
			if f[0] == "NUMBER" {
				k.class = 'd'
			}
			if len(f) > 1 {
				r := strings.SplitN(f[1], ",", 2)
				k.min, _ = strconv.Atoi(r[0])
				k.max = k.min
				if len(r) == 2 {
					k.max = -1
					if r[1] != "" {
						k.max, _ = strconv.Atoi(r[1])
					}
				}
			}
			toks = append(toks, k)
		default:
			return nil, fmt.Errorf("unknown placeholder %q", body)
		}
	}
	return toks, nil
}

// ---- coverage-guided fuzzing (thorough tier) ---------------------------------
// The same generators and oracles, driven by Go's native fuzzer through
// rapid.MakeFuzz: the byte string chosen by the fuzzer is rapid's bit stream.

func FuzzC20Diff(f *testing.F) {
	st := engine.StatsFor("C20")
	f.Add([]byte{})
	f.Add([]byte("seed corpus: a few arbitrary bytes \x00\x01\x02\xff"))
	f.Fuzz(rapid.MakeFuzz(func(rt *rapid.T) {
		have, want := vfGenPair(rt)
		st.Eval()
		if err := vfCheckDiff(have, want); err != nil {
			vfFail20(rt, "diff", have, want, err)
		}
	}))
}

func FuzzC20Match(f *testing.F) {
	st := engine.StatsFor("C20")
	f.Add([]byte{})
	f.Add([]byte("0123456789abcdef0123456789abcdef"))
	f.Fuzz(rapid.MakeFuzz(func(rt *rapid.T) {
		toks, tmpl, have := vfGenTemplate(rt)
		if !utf8.ValidString(have) {
			rt.Skip()
		}
		st.Eval()
		if _, err := vfCheckDiffMatch(toks, tmpl, have); err != nil {
			vfFail20(rt, "match", have, tmpl, err)
		}
	}))
}
