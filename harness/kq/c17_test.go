package fsnotify

import (
	"fmt"
	"os"
	"strings"
	"testing"

	"pgregory.net/rapid"

	"verif/harness/engine"
)

var kOwned = map[string]map[string]bool{
	"C17": {FKFds: true, FKList: true, FKLeak: true, FKWedge: true},
	"C18": {FKEvents: true, FKCreates: true, FKAltern: true, FKErrors: true, FKWedge: true},
}

func kReport(k *KWorld, prop string) []string {
	var out []string
	for _, f := range k.Findings {
		if kOwned[prop][f.Class] {
			out = append(out, f.String())
		}
	}
	return out
}

func kExec(c *KCase) *KWorld {
	defer engine.Guard()
	if p := os.Getenv("VERIF_JOURNAL"); p != "" {
		c.Save(p)
	}
	k := RunK(c)
	k.Destroy()
	return k
}

// kShrink: delta debugging on the step list.
func kShrink(c *KCase, prop string, budget int) *KCase {
	fails := func(x *KCase) bool {
		if budget <= 0 {
			return false
		}
		budget--
		return len(kReport(kExec(x), prop)) > 0
	}
	cur := *c
	for changed := true; changed && budget > 0; {
		changed = false
		for _, get := range []func() *[]KStep{func() *[]KStep { return &cur.Steps }, func() *[]KStep { return &cur.Setup }} {
			for chunk := len(*get()) / 2; chunk >= 1; chunk /= 2 {
				for i := 0; i+chunk <= len(*get()); {
					steps := *get()
					cand := append(append([]KStep(nil), steps[:i]...), steps[i+chunk:]...)
					*get() = cand
					if fails(&cur) {
						changed = true
					} else {
						*get() = steps
						i += chunk
					}
				}
			}
		}
	}
	return &cur
}

var simValidated = map[string]int{}

func checkK(t *testing.T, prop string, nontrivial func(*KCase, *KWorld) bool) {
	st := engine.StatsFor(prop)
	// the simulator is validated on every run by replaying the repository's scripts
	m, s, mm, _ := validateSimulator(t)
	st.Extra["traces_validated_against_impl"] = m
	st.Extra["testdata_scripts_skipped_by_their_own_rules"] = s
	if len(mm) > 0 {
		// the backend (or the simulator) no longer reproduces the recorded
		// expectations: that is a C18-level fact for the current tree
		if prop == "C18" {
			p := engine.SaveReplay(prop, &KCase{Prop: prop})
			t.Fatalf("property C18 violated (replay %s): the repository's recorded kqueue expectations are not reproduced:\n%s", p, strings.Join(mm, "\n"))
		}
		st.Extra["testdata_scripts_mismatched"] = len(mm)
	}
	rapid.Check(t, func(rt *rapid.T) {
		c := GenK(rt, prop)
		k := kExec(c)
		st.Eval()
		st.AddFeat("events", k.Events)
		for f, n := range k.Feat {
			st.AddFeat(f, n)
		}
		for f, n := range k.Known {
			st.AddKnown(f, n)
		}
		if nontrivial(c, k) {
			st.NonTrivial(c.String(), c.String())
		}
		if rep := kReport(k, prop); rep != nil {
			small := kShrink(c, prop, 300)
			k2 := kExec(small)
			if rep2 := kReport(k2, prop); rep2 != nil {
				c, rep = small, rep2
			}
			p := engine.SaveReplay(prop, c)
			rt.Fatalf("property %s violated (replay %s)\ncase: %s\n%s", prop, p, c, strings.Join(rep, "\n"))
		}
	})
}

func TestC17(t *testing.T) {
	checkK(t, "C17", func(c *KCase, k *KWorld) bool {
		ended := 0
		for _, s := range c.Steps {
			if s.K == "rmr" || s.K == "rmdir" || s.K == "unlink" || s.K == "rename" {
				ended++
			}
		}
		return ended >= 1 && k.Feat["adds"] >= 1
	})
}

func TestC18(t *testing.T) {
	checkK(t, "C18", func(c *KCase, k *KWorld) bool { return k.Events >= 5 })
}

func TestReplayK(t *testing.T) {
	p := os.Getenv("VERIF_REPLAY")
	if p == "" {
		t.Skip()
	}
	var c KCase
	if err := engine.LoadJSON(p, &c); err != nil {
		t.Fatal(err)
	}
	if c.Prop != "C17" && c.Prop != "C18" {
		t.Skip("not a kqueue history")
	}
	engine.StatsFor(c.Prop).Eval()
	if len(c.Steps) == 0 {
		_, _, mm, _ := validateSimulator(t)
		if len(mm) > 0 {
			t.Fatalf("property %s violated (replay %s): recorded kqueue expectations not reproduced:\n%s", c.Prop, p, strings.Join(mm, "\n"))
		}
		return
	}
	k := kExec(&c)
	if rep := kReport(k, c.Prop); rep != nil {
		t.Fatalf("property %s violated (replay %s)\ncase: %s\n%s", c.Prop, p, &c, strings.Join(rep, "\n"))
	}
	_ = fmt.Sprint
}
