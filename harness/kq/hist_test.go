package fsnotify

import (
	"fmt"
	"os"
	"path/filepath"
	"sort"
	"strings"
	"syscall"
	"time"

	"pgregory.net/rapid"

	"verif/harness/engine"
	"verif/harness/kq/unix"
)

type KStep struct {
	K string   `json:"k"`
	P engine.P `json:"p,omitempty"`
	Q engine.P `json:"q,omitempty"`
	N int      `json:"n,omitempty"`
}

func (s KStep) String() string {
	switch s.K {
	case "rename", "symlink":
		return fmt.Sprintf("%s(%q,%q)", s.K, string(s.P), string(s.Q))
	case "hold", "sync", "close", "removeall":
		return s.K
	}
	return fmt.Sprintf("%s(%q)", s.K, string(s.P))
}

type KCase struct {
	Prop  string  `json:"prop"`
	Buf   int     `json:"buf"`
	Setup []KStep `json:"setup"`
	Steps []KStep `json:"steps"`
}

func (c *KCase) Save(p string) error { return engine.SaveJSON(p, c) }
func (c *KCase) String() string {
	var b strings.Builder
	fmt.Fprintf(&b, "buf=%d setup:", c.Buf)
	for _, s := range c.Setup {
		b.WriteString(" " + s.String())
	}
	b.WriteString(" ;")
	for _, s := range c.Steps {
		b.WriteString(" " + s.String())
	}
	return b.String()
}

type kwatch struct {
	spelling string // cleaned Add argument
	isDir    bool
	id       ident // identity of the watched object at Add time
}

// KWorld executes a KCase against the kqueue backend on the simulated kernel.
type KWorld struct {
	c         *KCase
	root      string
	oldCwd    string
	w         *Watcher
	col       *collector
	user      []*kwatch
	holding   bool
	closed    bool
	expected  []string // expected events since last sync (quiescent mode)
	exact     bool     // segment is quiescent (one op): exact oracle applies
	opsInSeg  int
	snap      map[string]map[string]uint64 // per covered dir spelling: entry -> inode at the last quiescent point
	snapDir   map[string]bool              // entries that were directories at the last quiescent point
	wedged    bool                         // a deadlock was proved: nothing more can be asked of the Watcher
	movedAway map[string]bool              // "<inode of directory>/<name>": entries renamed away since the last quiescent point
	Findings  []engine.Finding
	step      int
	Events    int
	Feat      map[string]int
	reported  map[string]bool
	allEvs    []string
	Known     map[string]int
	abandoned bool
}

func (k *KWorld) find(class, format string, a ...any) {
	k.Findings = append(k.Findings, engine.Finding{Class: class, Step: k.step, Detail: fmt.Sprintf(format, a...)})
}

const (
	FKFds     = "kq-fds"     // descriptors and tables out of step / orphan internal watches   (C17)
	FKList    = "kq-list"    // WatchList shows something the user did not add                 (C17)
	FKLeak    = "kq-leak"    // descriptors or table entries left after remove-all / Close      (C17)
	FKEvents  = "kq-events"  // quiescent per-op event table violated                           (C18)
	FKCreates = "kq-creates" // Create-count invariant violated                                 (C18)
	FKAltern  = "kq-altern"  // per-name alternation Create / Remove|Rename violated            (C18)
	FKErrors  = "kq-errors"  // something arrived on Errors                                     (C18)
	FKWedge   = "kq-wedge"   // the backend is provably deadlocked / its reader never exits     (C17, C18)
)

// api runs an API call (or a look at the backend's tables) under the watchdog;
// false means it is provably blocked for good: the case ends with a finding.
func (k *KWorld) api(what string, f func()) bool {
	if k.wedged {
		return false
	}
	if proof := kCall(what, f); proof != "" {
		k.wedge(proof)
		return false
	}
	return true
}

func (k *KWorld) wedge(proof string) {
	k.wedged = true
	k.find(FKWedge, "deadlock: no further event can be delivered and no descriptor released\n%s", proof)
}

// quiet waits for the backend to have handled everything raised so far.
func (k *KWorld) quiet() bool {
	if k.wedged {
		return false
	}
	if proof := quiesce(k.col); proof != "" {
		k.wedge(proof)
		return false
	}
	return true
}

func NewKWorld(c *KCase) *KWorld {
	root, err := os.MkdirTemp("", "kq")
	if err != nil {
		engine.ExitInconclusive(err.Error())
	}
	k := &KWorld{c: c, root: root, Feat: map[string]int{}, reported: map[string]bool{}, snap: map[string]map[string]uint64{}, Known: map[string]int{}}
	k.oldCwd, _ = os.Getwd()
	os.Chdir(root)
	for _, s := range c.Setup {
		k.fsop(s, false)
	}
	waitNoReader()
	unix.Reset()
	if c.Buf < 0 {
		k.w, err = NewWatcher()
	} else {
		k.w, err = NewBufferedWatcher(uint(c.Buf))
	}
	if err != nil {
		engine.ExitInconclusive(err.Error())
	}
	k.col = collect(k.w)
	k.quiet()
	return k
}

func (k *KWorld) Destroy() {
	unix.Release()
	if k.w != nil && !k.wedged {
		if k.api("Close()", func() { k.w.Close() }) {
			k.awaitReaderExit()
		}
	}
	if k.w != nil {
		select {
		case <-k.col.done:
		default:
			// a reader that is still there must not outlive this world
			unix.KillReaders()
			select {
			case <-k.col.done:
			case <-time.After(2 * time.Second):
			}
		}
		waitNoReader()
	}
	unix.Reset()
	os.Chdir(k.oldCwd)
	os.RemoveAll(k.root)
}

// cover returns the spelling of the live user directory watch on dir, if any.
func (k *KWorld) cover(dir string) (string, bool) {
	id := sident(dir)
	if !id.ok {
		return "", false
	}
	for _, u := range k.user {
		if u.isDir && u.id.dev == id.dev && u.id.ino == id.ino {
			return u.spelling, true
		}
	}
	return "", false
}

func (k *KWorld) fileWatch(p string) *kwatch {
	for _, u := range k.user {
		if !u.isDir && u.spelling == filepath.Clean(p) {
			return u
		}
	}
	return nil
}

func (k *KWorld) dropUser(u *kwatch) {
	for n := range k.reported {
		if n == u.spelling || strings.HasPrefix(n, u.spelling+"/") {
			delete(k.reported, n)
		}
	}
	for i, x := range k.user {
		if x == u {
			k.user = append(k.user[:i:i], k.user[i+1:]...)
			return
		}
	}
}

// nameOf gives the event name for entry p, or "" when nothing watches it.
func (k *KWorld) nameOf(p string) string {
	if id := lident(p); id.ok && id.dir { // a user-watched directory itself
		for _, u := range k.user {
			if u.isDir && u.id.dev == id.dev && u.id.ino == id.ino {
				return u.spelling
			}
		}
	}
	if pre, ok := k.cover(filepath.Dir(p)); ok {
		return pre + "/" + filepath.Base(p)
	}
	if u := k.fileWatch(p); u != nil {
		return u.spelling
	}
	return ""
}

func trackable(id ident, p string) bool {
	if !id.ok {
		return false
	}
	var st syscall.Stat_t
	if syscall.Lstat(p, &st) != nil {
		return false
	}
	switch st.Mode & syscall.S_IFMT {
	case syscall.S_IFREG, syscall.S_IFDIR:
		return true
	}
	return false
}

func (k *KWorld) exp(op, name string) {
	if name != "" {
		k.expected = append(k.expected, op+" "+name)
	}
}

// fsop performs one filesystem step; when observe is set it also records what
// the specification table says must be reported for it.
func (k *KWorld) fsop(s KStep, observe bool) error {
	p, q := string(s.P), string(s.Q)
	switch s.K {
	case "create":
		name := k.nameOf(p)
		err := kCreate(p)
		if err == nil && observe {
			k.exp("CREATE", name)
		}
		return err
	case "mkdir":
		name := k.nameOf(p)
		err := kMkdir(p)
		if err == nil && observe {
			k.exp("CREATE", name)
		}
		return err
	case "write":
		id := lident(p)
		name := k.nameOf(p)
		err := kWrite(p, 3)
		if err == nil && observe && trackable(id, p) {
			k.exp("WRITE", name)
		}
		return err
	case "trunc":
		id := lident(p)
		name := k.nameOf(p)
		if id.dir {
			return syscall.EISDIR
		}
		err := kTruncate(p, int64(s.N))
		if err == nil && observe && trackable(id, p) {
			k.exp("CHMOD", name)
		}
		return err
	case "chmod":
		id := lident(p)
		if !id.ok {
			return syscall.ENOENT
		}
		if id.dir {
			// a directory the user watches reports its own attribute change;
			// one that is only an entry of a watched directory does not (the
			// internal watch on it asks for delete and rename only)
			name := ""
			for _, u := range k.user {
				if u.isDir && u.id.dev == id.dev && u.id.ino == id.ino {
					name = u.spelling
				}
			}
			err := kChmod(p, 0o700)
			if err == nil && observe && name != "" {
				k.exp("CHMOD", name)
			}
			return err
		}
		name := k.nameOf(p)
		err := kChmod(p, 0o600)
		if err == nil && observe && trackable(id, p) {
			k.exp("CHMOD", name)
		}
		return err
	case "unlink":
		id := lident(p)
		name := k.nameOf(p)
		tr := trackable(id, p)
		fw := k.fileWatch(p)
		err := kUnlink(p)
		if err == nil && observe && tr {
			k.exp("REMOVE", name)
		}
		if err == nil && fw != nil {
			k.dropUser(fw)
		}
		return err
	case "rmdir":
		name := k.nameOf(p)
		id := sident(p)
		err := kRmdir(p)
		if err == nil {
			if observe {
				k.exp("REMOVE", name)
			}
			k.dirGone(id, observe, "REMOVE")
		}
		return err
	case "rename":
		src, dst := lident(p), lident(q)
		if !src.ok {
			return syscall.ENOENT
		}
		sname, dname := k.nameOf(p), k.nameOf(q)
		strk, dtrk := trackable(src, p), trackable(dst, q)
		sfw, dfw := k.fileWatch(p), k.fileWatch(q)
		_, dcov := k.cover(filepath.Dir(q))
		if dfw != nil && dst.ok && !dcov {
			// overwriting a file the user watches directly, in a directory that
			// is not watched: what happens to that file watch is outside the
			// directory properties C17/C18 (the recorded expectation
			// watch-file/overwrite-watched-file covers it); the step is skipped
			k.Feat["overwrite-of-lone-file-watch-skipped"]++
			return syscall.EEXIST
		}
		spar := parentOf(p)
		err := kRename(p, q)
		if err != nil {
			return err
		}
		if dst.ok && dst.ino == src.ino && dst.dev == src.dev {
			return nil
		}
		if spar.ok {
			if k.movedAway == nil {
				k.movedAway = map[string]bool{}
			}
			k.movedAway[fmt.Sprintf("%d/%s", spar.ino, filepath.Base(p))] = true
		}
		if observe && dst.ok && dst.dir && dcov && engine.IsKnown(SigF14) {
			// recorded defect F14 (directory variant): a subdirectory entry
			// replaced by a rename gets Remove but the replacement gets no
			// Create and is not watched; abandon the case (counted)
			k.Known[SigF14]++
			k.abandoned = true
		}
		if observe {
			if strk {
				k.exp("RENAME", sname)
			}
			if dst.ok && dtrk && !(dst.ino == src.ino && dst.dev == src.dev) {
				k.exp("REMOVE", dname)
			}
			if dcov {
				k.exp("CREATE", dname)
			}
		}
		if sfw != nil {
			k.dropUser(sfw)
		}
		if dfw != nil && dst.ok {
			k.dropUser(dfw)
		}
		if src.dir {
			k.dirGone(src, false, "")
		}
		return nil
	case "rmr":
		id := sident(p)
		if !id.ok || !id.dir {
			return syscall.ENOTDIR
		}
		if observe {
			// everything below p that something watches reports its removal
			var walk func(d string)
			walk = func(d string) {
				ents, _ := os.ReadDir(d)
				for _, e := range ents {
					ep := filepath.Join(d, e.Name())
					eid := lident(ep)
					if eid.dir {
						walk(ep)
					}
					if trackable(eid, ep) {
						k.exp("REMOVE", k.nameOf(ep))
					}
					if fw := k.fileWatch(ep); fw != nil {
						k.dropUser(fw)
					}
				}
			}
			walk(p)
			k.exp("REMOVE", k.nameOf(p))
		}
		err := kRemoveAll(p)
		if err == nil {
			k.dirGone(id, false, "")
		}
		return err
	case "mkfifo":
		name := k.nameOf(p)
		err := kMkfifo(p)
		if err == nil && observe {
			k.exp("CREATE", name)
		}
		return err
	case "symlink":
		name := k.nameOf(q)
		err := kSymlink(p, q)
		if err == nil && observe {
			k.exp("CREATE", name)
		}
		return err
	}
	panic("kq: unknown fs op " + s.K)
}

// dirGone ends the user watch on a directory that was removed or renamed.
func (k *KWorld) dirGone(id ident, observe bool, op string) {
	for _, u := range k.user {
		if u.isDir && u.id.dev == id.dev && u.id.ino == id.ino {
			var st syscall.Stat_t
			if syscall.Lstat(u.spelling, &st) == nil && st.Mode&syscall.S_IFMT == syscall.S_IFLNK && engine.IsKnown(SigF13) {
				// recorded defect F13: the backend cannot drop a watch that was
				// added through a symlink (it looks it up under the link name),
				// so its state is inconsistent from here on: abandon the case
				k.Known[SigF13]++
				k.abandoned = true
			}
			k.dropUser(u)
			return
		}
	}
}

func (k *KWorld) takeSnap() {
	k.snap = map[string]map[string]uint64{}
	k.snapDir = map[string]bool{}
	k.movedAway = map[string]bool{}
	for _, u := range k.user {
		if !u.isDir {
			continue
		}
		m := map[string]uint64{}
		ents, _ := os.ReadDir(u.spelling)
		for _, e := range ents {
			p := filepath.Join(u.spelling, e.Name())
			if id := lident(p); trackable(id, p) {
				m[e.Name()] = id.ino
				if id.dir {
					k.snapDir[p] = true
				}
			}
		}
		k.snap[u.spelling] = m
	}
}

// Sync releases held delivery, waits for quiescence and runs the oracles.
func (k *KWorld) Sync() {
	if k.closed {
		return
	}
	if k.holding {
		unix.Release()
		k.holding = false
	}
	if !k.quiet() {
		return
	}
	evs, errs := k.col.take()
	k.Events += len(evs)
	for _, e := range errs {
		k.find(FKErrors, "received on Errors: %v", e)
	}
	var have []string
	for _, e := range evs {
		have = append(have, e.Op.String()+" "+e.Name)
	}
	k.allEvs = append(k.allEvs, have...)
	if k.abandoned {
		return
	}
	// per-name alternation over the whole history (C18)
	for _, e := range evs {
		switch {
		case e.Has(Create):
			if k.reported[e.Name] {
				k.find(FKAltern, "second Create for %q without a Remove or Rename in between (events so far: %q)", e.Name, k.allEvs)
			}
			k.reported[e.Name] = true
		case e.Has(Remove) || e.Has(Rename):
			k.reported[e.Name] = false
		}
	}
	if k.exact {
		h, w := append([]string(nil), have...), append([]string(nil), k.expected...)
		sort.Strings(h)
		sort.Strings(w)
		if strings.Join(h, "\n") != strings.Join(w, "\n") {
			k.find(FKEvents, "specification table says %q, delivered %q", k.expected, have)
		}
	} else {
		// burst: Create-count invariant between the two quiescent points
		creates := map[string]int{}
		for _, e := range evs {
			if e.Has(Create) {
				creates[e.Name]++
			}
		}
		for _, u := range k.user {
			if !u.isDir {
				continue
			}
			old := k.snap[u.spelling]
			ents, _ := os.ReadDir(u.spelling)
			now := map[string]bool{}
			// known finding F14: a name whose previous holder was renamed away
			// (or was a removed subdirectory) exists again with a new inode and
			// got no Create; the directory scan may also have stopped there, so
			// nothing about this segment can be judged exactly.
			if old != nil && engine.IsKnown(SigF14) {
				udir := sident(u.spelling)
				for _, e := range ents {
					p := filepath.Join(u.spelling, e.Name())
					id := lident(p)
					// the rename away is taken from the history, not only from a
					// delivered Rename: for an entry that is itself a watched
					// directory, modified and then renamed away in the burst, the
					// merged Write|Rename notification goes to the directory scan
					// and no Rename event is sent
					away := k.movedAway[fmt.Sprintf("%d/%s", udir.ino, e.Name())]
					if ino, was := old[e.Name()]; trackable(id, p) && was && creates[p] == 0 && (renamedIn(evs, p, false) || ino != id.ino && (away || renamedIn(evs, p, k.snapDir[p]))) {
						k.Known[SigF14]++
						k.abandoned = true
					}
				}
				if k.abandoned {
					continue
				}
			}
			for _, e := range ents {
				p := filepath.Join(u.spelling, e.Name())
				id := lident(p)
				if !trackable(id, p) {
					continue
				}
				now[e.Name()] = true
				want := 0
				if ino, was := old[e.Name()]; !was || ino != id.ino {
					want = 1
				} else if k.movedAway[fmt.Sprintf("%d/%s", sident(u.spelling).ino, e.Name())] && creates[p] == 1 {
					// the same file was renamed away and came back under its name
					// within the segment: two changes, Rename then Create
					want = 1
				}
				if old == nil {
					want = 0 // watch added inside the segment: existing entries are not new
					if creates[p] > 1 {
						k.find(FKCreates, "entry %q: %d Create events in one segment", p, creates[p])
					}
					continue
				}
				if creates[p] != want {
					k.find(FKCreates, "entry %q exists now (inode %d), before the burst: %v; %d Create events, want %d (burst delivered %q)", p, id.ino, old[e.Name()], creates[p], want, have)
				}
			}
			for n, c := range creates {
				if filepath.Dir(n) == u.spelling && !now[filepath.Base(n)] && c > 1 {
					k.find(FKCreates, "entry %q does not exist now yet got %d Create events", n, c)
				}
			}
		}
	}
	k.expected = nil
	k.exact = true
	k.opsInSeg = 0
	k.takeSnap()
	if !k.abandoned {
		k.checkFds()
	}
}

// checkFds: descriptors, tables and user paths in step (C17).
func (k *KWorld) checkFds() {
	k.api("inspection of the watch tables", func() { k.checkFds0() })
}

func (k *KWorld) checkFds0() {
	b := k.w.b.(*kqueue)
	b.watches.mu.RLock()
	var wds []int
	userSpell := map[string]bool{}
	for _, u := range k.user {
		userSpell[u.spelling] = true
	}
	var orphans []string
	for fd, wt := range b.watches.wd {
		wds = append(wds, fd)
		byUser := false
		for u := range b.watches.byUser {
			if filepath.Clean(u) == wt.name {
				byUser = true
			}
		}
		linkUser := wt.linkName != ""
		if !byUser && !linkUser {
			// internal watch: its directory must still be watched by the user
			parent := filepath.Dir(wt.name)
			ok := false
			for u := range b.watches.byUser {
				if filepath.Clean(u) == parent {
					ok = true
				}
			}
			for _, ww := range b.watches.wd {
				if ww.linkName == parent {
					ok = true
				}
			}
			if !ok {
				orphans = append(orphans, wt.name)
			}
		}
	}
	nPath, nDir, nSeen, nUser := len(b.watches.path), len(b.watches.byDir), len(b.watches.seen), len(b.watches.byUser)
	b.watches.mu.RUnlock()
	sort.Ints(wds)
	fds := unix.OpenVnodeFds()
	if fmt.Sprint(wds) != fmt.Sprint(fds) {
		var paths []string
		for _, fd := range fds {
			paths = append(paths, fmt.Sprintf("%d:%s", fd, unix.FdPath(fd)))
		}
		k.find(FKFds, "descriptors opened and not closed %v differ from the descriptors in the watch table %v", paths, wds)
	}
	sort.Strings(orphans)
	if len(orphans) > 0 {
		if !engine.IsKnown(SigF11) {
			k.find(FKFds, "internal watches (open descriptors) remain for entries of directories that are no longer watched: %q", orphans)
		} else {
			// recorded defect; release them by name (the API allows that) so
			// that the search continues behind it
			k.Known[SigF11]++
			for _, o := range orphans {
				k.w.Remove(o)
			}
		}
	}
	for _, p := range k.w.WatchList() {
		if !userSpell[filepath.Clean(p)] && !k.everAdded(filepath.Clean(p)) {
			k.find(FKList, "WatchList shows %q, which the user never added (user paths %v)", p, k.userSpellings())
		}
	}
	_ = nPath
	_ = nDir
	_ = nSeen
	_ = nUser
}

var addedEver = map[string]bool{}

func (k *KWorld) everAdded(p string) bool { return addedEver[k.root+"\x00"+p] }

func (k *KWorld) userSpellings() []string {
	var s []string
	for _, u := range k.user {
		s = append(s, u.spelling)
	}
	return s
}

// SigF11 is the signature of known finding F11 (see known_findings.json).
const SigF11 = "kqueue: entry watches stay open after the watch of their directory ended without events for the entries (directory renamed, or entry is a symlink)"

// SigF14 is the signature of known finding F14.
const SigF14 = "kqueue: entry renamed away (or subdirectory removed) and its name re-created before the reader handles the directory change: Create is not reported"

// renamedIn: the previous holder of name was renamed away, or was a
// directory that was removed (the two cases in which the backend does not
// look for a replacement).
func renamedIn(evs []Event, name string, wasDir bool) bool {
	for _, e := range evs {
		if e.Name == name && (e.Has(Rename) || wasDir && e.Has(Remove)) {
			return true
		}
	}
	return false
}

// SigF13 is the signature of known finding F13 (see known_findings.json).
const SigF13 = "kqueue: a watch added through a symlink spelling cannot be removed by that spelling"

// RemoveAll removes every user watch and checks that nothing is left (C17).
func (k *KWorld) RemoveAll() {
	k.api("Remove of every listed path", func() { k.RemoveAll0() })
}

func (k *KWorld) RemoveAll0() {
	var symlinked []string // user spellings that are symbolic links
	for _, p := range k.w.WatchList() {
		err := k.w.Remove(p)
		var st syscall.Stat_t
		if err != nil && syscall.Lstat(filepath.Clean(p), &st) == nil && st.Mode&syscall.S_IFMT == syscall.S_IFLNK {
			symlinked = append(symlinked, p)
		}
	}
	if len(symlinked) > 0 {
		if !engine.IsKnown(SigF13) {
			k.find(FKLeak, "Remove(%q) of a path shown by WatchList failed: the watch added through this symlink cannot be removed", symlinked)
			return
		}
		// recorded defect: such a watch and the watches of its entries cannot
		// be released through Remove; the emptiness clause cannot be judged for
		// this case (excluded by construction, counted)
		k.Known[SigF13]++
		k.user = nil
		k.Feat["removeall-excluded-by-F13"]++
		return
	}
	k.user = nil
	if proof := quiesce(k.col); proof != "" {
		k.wedge(proof)
		return
	}
	k.col.take()
	b := k.w.b.(*kqueue)
	b.watches.mu.RLock()
	nWd, nPath, nDir, nSeen, nUser := len(b.watches.wd), len(b.watches.path), len(b.watches.byDir), len(b.watches.seen), len(b.watches.byUser)
	var seen []string
	for s := range b.watches.seen {
		seen = append(seen, s)
	}
	var users []string
	for u := range b.watches.byUser {
		users = append(users, u)
	}
	b.watches.mu.RUnlock()
	if fds := unix.OpenVnodeFds(); len(fds) > 0 {
		var paths []string
		for _, fd := range fds {
			paths = append(paths, unix.FdPath(fd))
		}
		k.find(FKLeak, "after removing every watch %d descriptors are still open: %q", len(fds), paths)
	}
	if nWd+nPath+nDir+nUser > 0 {
		k.find(FKLeak, "after removing every watch the tables still hold entries: wd=%d path=%d byDir=%d byUser=%d %q seen=%d %q", nWd, nPath, nDir, nUser, users, nSeen, seen)
	}
	if n := unix.KnoteCount(); n > 0 {
		k.find(FKLeak, "after removing every watch %d vnode knotes are still registered", n)
	}
	k.takeSnap()
}

// awaitReaderExit waits, after Close has returned, for the reader goroutine to
// close the channels. stuck: the reader sleeps in kevent() with nothing pending
// (nothing will ever wake it); proof: the backend is deadlocked.
func (k *KWorld) awaitReaderExit() (stuck, proof string) {
	const reader = "harness/kq.(*kqueue).readEvents"
	for i := 0; ; i++ {
		wait := 300 * time.Millisecond
		if i > 0 {
			wait = 3 * time.Second
		}
		select {
		case <-k.col.done:
			return "", ""
		case <-time.After(wait):
		}
		if _, st, stack := engine.GoroutineState(reader); st != "" && strings.Contains(stack, "unix.Kevent") && unix.Idle() {
			time.Sleep(300 * time.Millisecond)
			if _, st2, stack2 := engine.GoroutineState(reader); st2 == st && strings.Contains(stack2, "unix.Kevent") && unix.Idle() {
				select {
				case <-k.col.done:
					return "", ""
				default:
				}
				return stack2, ""
			}
		}
		if p := kWedged(); p != "" {
			return "", p
		}
		if i >= 5 {
			engine.ExitInconclusive("channels not closed after Close on the simulated kqueue")
		}
	}
}

// Close closes the Watcher and checks that every descriptor is gone (C17).
func (k *KWorld) Close() {
	k.api("Close()", func() { k.Close0() })
}

func (k *KWorld) Close0() {
	if k.holding {
		unix.Release()
		k.holding = false
	}
	k.w.Close()
	switch stuck, proof := k.awaitReaderExit(); {
	case stuck != "":
		k.wedged = true
		k.closed = true
		k.find(FKLeak, "Close returned but the reader goroutine sleeps in kevent() with nothing pending and nothing that will wake it: Events/Errors stay open, the kqueue, the pipe and %d watch descriptors are never released\n%s", len(unix.OpenVnodeFds()), stuck)
		return
	case proof != "":
		k.closed = true
		k.wedge(proof)
		return
	}
	k.closed = true
	// the reader closes the kqueue and the pipe right after closing the channels
	for i := 0; i < 20000 && len(unix.OpenOtherFds()) > 0; i++ {
		time.Sleep(100 * time.Microsecond)
	}
	if fds := unix.OpenVnodeFds(); len(fds) > 0 {
		var paths []string
		for _, fd := range fds {
			paths = append(paths, unix.FdPath(fd))
		}
		k.find(FKLeak, "after Close %d watch descriptors are still open: %q", len(fds), paths)
	}
	if fds := unix.OpenOtherFds(); len(fds) > 0 {
		k.find(FKLeak, "after Close the kqueue/pipe descriptors %v are still open", fds)
	}
}

func (k *KWorld) Add(p string) {
	k.api(fmt.Sprintf("Add(%q)", p), func() { k.Add0(p) })
}

func (k *KWorld) Add0(p string) {
	c := filepath.Clean(p)
	id := sident(c)
	err := k.w.Add(p)
	if err == nil && !id.ok {
		// the path is gone (its directory was renamed away) but a watch made
		// under this name is still alive: the backend re-registers that one.
		// What Add returns is not part of C17/C18; the watch set is unchanged.
		k.Feat["add-of-a-vanished-path-accepted-through-a-live-watch"]++
		return
	}
	if err != nil {
		if id.ok {
			k.Feat["add-of-an-existing-path-failed"]++
		}
		return
	}
	addedEver[k.root+"\x00"+c] = true
	for _, u := range k.user {
		if u.spelling == c {
			return
		}
	}
	k.user = append(k.user, &kwatch{spelling: c, isDir: id.dir, id: id})
	k.Feat["adds"]++
}

// AddFault: the registration of the next watch fails (kevent returns ENOMEM
// after open succeeded). Add must report an error, and the descriptor it had
// opened must be closed again (checked by checkFds right afterwards).
func (k *KWorld) AddFault(p string) {
	k.api(fmt.Sprintf("Add (registration fails)(%q)", p), func() { k.AddFault0(p) })
}

func (k *KWorld) AddFault0(p string) {
	c := filepath.Clean(p)
	for _, u := range k.user {
		if u.spelling == c {
			return // already watched: no new descriptor would be opened
		}
	}
	if !sident(c).ok {
		return
	}
	if _, watched := k.w.b.(*kqueue).watches.byPath(c); watched {
		// the path already has an internal watch: a failing re-registration
		// closes that watch's descriptor but keeps its table entry (seen while
		// building this step; fault sequences are outside C17's quantifier, so
		// the step only injects the fault where a NEW descriptor is opened)
		return
	}
	before := len(unix.OpenVnodeFds())
	unix.SetFailAdds(1)
	err := k.w.Add(p)
	unix.SetFailAdds(0)
	k.Feat["adds-with-injected-registration-failure"]++
	if err == nil {
		// nothing was registered newly (e.g. an internal watch existed already):
		// then it is an ordinary successful Add
		addedEver[k.root+"\x00"+c] = true
		id := sident(c)
		k.user = append(k.user, &kwatch{spelling: c, isDir: id.dir, id: id})
		return
	}
	if after := len(unix.OpenVnodeFds()); after > before {
		var paths []string
		for _, fd := range unix.OpenVnodeFds() {
			paths = append(paths, unix.FdPath(fd))
		}
		k.find(FKLeak, "Add(%q) failed (%v) but %d descriptor(s) it opened stay open: now %q", p, err, after-before, paths)
	}
}

func (k *KWorld) Remove(p string) {
	k.api(fmt.Sprintf("Remove(%q)", p), func() { k.Remove0(p) })
}

func (k *KWorld) Remove0(p string) {
	c := filepath.Clean(p)
	var u *kwatch
	for _, x := range k.user {
		if x.spelling == c {
			u = x
		}
	}
	err := k.w.Remove(p)
	if u != nil {
		if err != nil {
			var st syscall.Stat_t
			if syscall.Lstat(c, &st) == nil && st.Mode&syscall.S_IFMT == syscall.S_IFLNK && engine.IsKnown(SigF13) {
				k.Known[SigF13]++ // recorded defect: the watch stays
				return
			}
			k.find(FKFds, "Remove(%q) of a watched path returned %v", p, err)
		}
		k.dropUser(u)
	}
}

// RunK executes a case.
func RunK(c *KCase) *KWorld {
	k := NewKWorld(c)
	k.exact = true
	k.takeSnap()
	for i, s := range c.Steps {
		k.step = i
		if len(k.Findings) > 0 || k.closed || k.abandoned || k.wedged {
			break
		}
		switch s.K {
		case "add":
			k.flush()
			k.Add(string(s.P))
			k.Sync()
		case "addfault":
			k.flush()
			k.AddFault(string(s.P))
			k.Sync()
		case "remove":
			k.flush()
			k.Remove(string(s.P))
			k.Sync()
		case "removeall":
			k.flush()
			k.RemoveAll()
		case "close":
			k.flush()
			k.Close()
		case "hold":
			k.flush()
			unix.Hold()
			k.holding = true
			k.exact = false
			k.Feat["bursts"]++
		case "sync":
			k.Sync()
		default:
			if !k.holding && k.opsInSeg >= 1 {
				// outside a held burst every operation is its own quiescent
				// segment (free-running delivery would race with the next op)
				k.Sync()
				if len(k.Findings) > 0 || k.abandoned {
					break
				}
			}
			k.opsInSeg++
			if k.opsInSeg > 1 {
				k.exact = false
			}
			k.fsop(s, true)
		}
	}
	if len(k.Findings) == 0 && !k.closed && !k.abandoned {
		k.step = len(c.Steps)
		k.flush()
	}
	return k
}

func (k *KWorld) flush() {
	if k.opsInSeg > 0 || k.holding {
		k.Sync()
	}
}

// ---- generator -----------------------------------------------------------------

var kNames = []string{"a", "b", "c", "dd"}

func GenK(t *rapid.T, prop string) *KCase {
	c := &KCase{Prop: prop}
	c.Buf = rapid.SampledFrom([]int{-1, 0, 1, 64}).Draw(t, "buf")
	odd := prop == "C17" // FIFOs and symlinks as directory contents
	kind := map[string]byte{"d0": 'd', "d1": 'd', "u": 'd'}
	for _, d := range []string{"d0", "d1", "u"} {
		c.Setup = append(c.Setup, KStep{K: "mkdir", P: engine.P(d)})
	}
	c.Setup = append(c.Setup, KStep{K: "create", P: "u/t"}, KStep{K: "symlink", P: "d0", Q: "ld0"})
	kind["u/t"] = 'f'
	npre := rapid.IntRange(0, 6).Draw(t, "npre")
	for i := 0; i < npre; i++ {
		p := rapid.SampledFrom([]string{"d0", "d1"}).Draw(t, "pd") + "/" + rapid.SampledFrom(kNames).Draw(t, "pn")
		if _, ok := kind[p]; ok {
			continue
		}
		r := rapid.IntRange(0, 9).Draw(t, "pk")
		switch {
		case r < 5:
			c.Setup = append(c.Setup, KStep{K: "create", P: engine.P(p)})
			kind[p] = 'f'
		case r < 8 || !odd:
			c.Setup = append(c.Setup, KStep{K: "mkdir", P: engine.P(p)})
			kind[p] = 'd'
			if rapid.Bool().Draw(t, "inner") {
				c.Setup = append(c.Setup, KStep{K: "create", P: engine.P(p + "/in")})
				kind[p+"/in"] = 'f'
			}
		case r == 8:
			// FIFOs and symlinks get names of their own: a name that changes
			// kind (directory -> FIFO) makes the backend open the FIFO with a
			// blocking open(2), which hangs the reader (noted in DESIGN.md)
			p = filepath.Dir(p) + "/ff" + filepath.Base(p)
			c.Setup = append(c.Setup, KStep{K: "mkfifo", P: engine.P(p)})
			kind[p] = 'p'
		default:
			p = filepath.Dir(p) + "/sl" + filepath.Base(p)
			tgt := rapid.SampledFrom([]string{"../u/t", "../u"}).Draw(t, "ltgt")
			c.Setup = append(c.Setup, KStep{K: "symlink", P: engine.P(tgt), Q: engine.P(p)})
			kind[p] = 'l'
		}
	}
	d0 := rapid.SampledFrom([]string{"d0", "d0", "ld0", "./d0/"}).Draw(t, "d0spelling")
	var steps []KStep
	// inner path first: an entry (file or subdirectory) is watched by the user
	// before the directory that contains it
	innerFirst := ""
	if engine.Pct(t, "innerfirst", 15) {
		var ents []string
		for p, k := range kind {
			if (k == 'f' || k == 'd') && strings.HasPrefix(p, "d1/") && strings.Count(p, "/") == 1 {
				ents = append(ents, p)
			}
		}
		sort.Strings(ents)
		if len(ents) > 0 {
			innerFirst = rapid.SampledFrom(ents).Draw(t, "innerfirst-entry")
			steps = append(steps, KStep{K: "add", P: engine.P(innerFirst)}, KStep{K: "add", P: "d1"})
		}
	}
	steps = append(steps, KStep{K: "add", P: engine.P(d0)})
	if innerFirst == "" && rapid.Bool().Draw(t, "addd1") {
		steps = append(steps, KStep{K: "add", P: "d1"})
	}
	// nested watched directory: a subdirectory of d0 that the user adds as well
	nested := ""
	if filepath.Clean(d0) == "d0" && rapid.IntRange(0, 3).Draw(t, "nested") == 0 {
		var subs []string
		for p, k := range kind {
			if k == 'd' && strings.HasPrefix(p, "d0/") && strings.Count(p, "/") == 1 {
				subs = append(subs, p)
			}
		}
		sort.Strings(subs)
		if len(subs) > 0 {
			nested = rapid.SampledFrom(subs).Draw(t, "nesteddir")
			steps = append(steps, KStep{K: "add", P: engine.P(nested)})
		}
	}
	d0pre := filepath.Clean(d0)
	spell := func(p string) string { // path as used in fs ops: real names
		return p
	}
	_ = d0pre
	anyPath := func(l string) string {
		return rapid.SampledFrom([]string{"d0", "d0", "d1", "d1", "u"}).Draw(t, l+"d") + "/" + rapid.SampledFrom(kNames).Draw(t, l+"n")
	}
	existing := func(l string, want func(byte) bool) string {
		var ex []string
		for p, k := range kind {
			if want(k) && strings.Count(p, "/") == 1 && p != "u/t" {
				ex = append(ex, p)
			}
		}
		sort.Strings(ex)
		if len(ex) > 0 && rapid.IntRange(0, 9).Draw(t, l+"ex") < 9 {
			return rapid.SampledFrom(ex).Draw(t, l)
		}
		return anyPath(l)
	}
	fresh := func(l string) string {
		for i := 0; i < 4; i++ {
			p := anyPath(l)
			if _, ok := kind[p]; !ok {
				return p
			}
		}
		return anyPath(l)
	}
	isFile := func(k byte) bool { return k == 'f' }
	isDir := func(k byte) bool { return k == 'd' }
	isAny := func(k byte) bool { return k == 'f' || k == 'd' }
	nops := rapid.IntRange(3, 25).Draw(t, "nops")
	inBurst := 0
	for i := 0; i < nops; i++ {
		if inBurst == 0 && rapid.IntRange(0, 9).Draw(t, "burst") < 3 {
			steps = append(steps, KStep{K: "hold"})
			inBurst = rapid.IntRange(2, 8).Draw(t, "burstlen")
		}
		if inBurst == 0 && engine.Pct(t, "rewatch", 6) {
			// the watch on a directory is removed, the directory changes while
			// nobody watches, the watch is added again: what exists then is not
			// new, what is created afterwards is
			d := rapid.SampledFrom([]string{d0, "d1"}).Draw(t, "rwdir")
			real := filepath.Clean(d)
			if real == "ld0" {
				real = "d0"
			}
			victim := real + "/" + rapid.SampledFrom(kNames).Draw(t, "rwname")
			steps = append(steps, KStep{K: "remove", P: engine.P(d)}, KStep{K: "unlink", P: engine.P(victim)}, KStep{K: "sync"},
				KStep{K: "create", P: engine.P(real + "/while-away")}, KStep{K: "sync"},
				KStep{K: "add", P: engine.P(d)}, KStep{K: "create", P: engine.P(victim)}, KStep{K: "sync"},
				KStep{K: "write", P: engine.P(victim)}, KStep{K: "sync"}, KStep{K: "unlink", P: engine.P(real + "/while-away")}, KStep{K: "sync"})
			if kind[victim] == 'd' {
				// (unlink of a directory fails; the create then fails too: harmless)
			} else {
				kind[victim] = 'f'
			}
			continue
		}
		r := rapid.IntRange(0, 99).Draw(t, "op")
		var s KStep
		if nested != "" && kind[nested] == 'd' && rapid.IntRange(0, 3).Draw(t, "innested") == 0 {
			// activity inside (or into) the nested watched directory
			np := nested + "/" + rapid.SampledFrom([]string{"n1", "n2", "in"}).Draw(t, "nname")
			switch rapid.IntRange(0, 4).Draw(t, "nop") {
			case 0:
				s = KStep{K: "create", P: engine.P(np)}
			case 1:
				s = KStep{K: "write", P: engine.P(np)}
			case 2:
				s = KStep{K: "unlink", P: engine.P(np)}
			case 3: // move a file of the parent into the nested directory
				s = KStep{K: "rename", P: engine.P(existing("nmv", isFile)), Q: engine.P(np)}
				delete(kind, string(s.P))
			default: // and out again
				s = KStep{K: "rename", P: engine.P(np), Q: engine.P(fresh("nout"))}
				if _, ok := kind[string(s.Q)]; !ok {
					kind[string(s.Q)] = 'f'
				}
			}
			steps = append(steps, s)
			if inBurst > 0 {
				inBurst--
				if inBurst == 0 {
					steps = append(steps, KStep{K: "sync"})
				}
			} else {
				steps = append(steps, KStep{K: "sync"})
			}
			continue
		}
		switch {
		case r < 18:
			p := fresh("cr")
			s = KStep{K: "create", P: engine.P(spell(p))}
			if _, ok := kind[p]; !ok {
				kind[p] = 'f'
			}
		case r < 30:
			s = KStep{K: "write", P: engine.P(existing("wr", isFile))}
		case r < 36:
			s = KStep{K: "chmod", P: engine.P(existing("ch", isFile))}
			if rapid.IntRange(0, 3).Draw(t, "chdir") == 0 {
				// attribute change of a watched directory itself (in a burst it
				// merges with the directory's write notification)
				ds := []string{"d0", "d1"}
				if nested != "" {
					ds = append(ds, nested)
				}
				s.P = engine.P(rapid.SampledFrom(ds).Draw(t, "chd"))
			}
		case r < 40:
			s = KStep{K: "trunc", P: engine.P(existing("tr", isFile)), N: 0}
		case r < 54:
			p := existing("ul", isFile)
			s = KStep{K: "unlink", P: engine.P(p)}
			if kind[p] == 'f' {
				delete(kind, p)
				if rapid.IntRange(0, 4).Draw(t, "replace") == 0 {
					// the name comes back at once, as a file or as a directory
					steps = append(steps, s)
					if inBurst > 0 {
						inBurst++
					} else {
						steps = append(steps, KStep{K: "sync"})
					}
					if rapid.Bool().Draw(t, "replacedir") {
						s = KStep{K: "mkdir", P: engine.P(p)}
						kind[p] = 'd'
					} else {
						s = KStep{K: "create", P: engine.P(p)}
						kind[p] = 'f'
					}
				}
			}
		case r < 62:
			p := fresh("md")
			s = KStep{K: "mkdir", P: engine.P(p)}
			if _, ok := kind[p]; !ok {
				kind[p] = 'd'
			}
		case r < 67:
			p := existing("rd", isDir)
			s = KStep{K: "rmdir", P: engine.P(p)}
			if kind[p] == 'd' {
				if _, inner := kind[p+"/in"]; !inner {
					delete(kind, p)
				}
			}
		case r < 84:
			a := existing("mvs", isAny)
			b := fresh("mvd")
			if rapid.IntRange(0, 3).Draw(t, "overwrite") == 0 {
				b = existing("mvo", func(k byte) bool { return k == kind[a] })
			}
			s = KStep{K: "rename", P: engine.P(a), Q: engine.P(b)}
			if ka, ok := kind[a]; ok && a != b {
				kb, okb := kind[b]
				_, innerB := kind[b+"/in"]
				if !okb || (ka == kb && !(kb == 'd' && innerB)) {
					delete(kind, a)
					kind[b] = ka
					if _, inner := kind[a+"/in"]; inner {
						delete(kind, a+"/in")
						kind[b+"/in"] = 'f'
					}
				}
			}
		case r < 88:
			p := existing("rr", isDir)
			s = KStep{K: "rmr", P: engine.P(p)}
			for q := range kind {
				if q == p || strings.HasPrefix(q, p+"/") {
					delete(kind, q)
				}
			}
		case r < 91 && odd:
			p := fresh("ff")
			p = filepath.Dir(p) + "/ff" + filepath.Base(p)
			s = KStep{K: "mkfifo", P: engine.P(p)}
			if _, ok := kind[p]; !ok {
				kind[p] = 'p'
			}
		case r < 93 && odd:
			p := fresh("sl")
			p = filepath.Dir(p) + "/sl" + filepath.Base(p)
			s = KStep{K: "symlink", P: engine.P(rapid.SampledFrom([]string{"../u/t", "../u"}).Draw(t, "sltgt")), Q: engine.P(p)}
			if _, ok := kind[p]; !ok {
				kind[p] = 'l'
			}
		case r < 95:
			// whole watched directory: rename away or remove recursively
			d := rapid.SampledFrom([]string{"d0", "d1"}).Draw(t, "wd")
			if rapid.Bool().Draw(t, "wdrm") {
				s = KStep{K: "rmr", P: engine.P(d)}
			} else {
				s = KStep{K: "rename", P: engine.P(d), Q: engine.P("u/gone-" + d)}
			}
			for q := range kind {
				if q == d || strings.HasPrefix(q, d+"/") {
					delete(kind, q)
				}
			}
		case r < 96 && odd:
			s = KStep{K: "addfault", P: engine.P(rapid.SampledFrom([]string{"d1", "u", "u/t", existing("aff", isAny)}).Draw(t, "af"))}
		case r < 97:
			s = KStep{K: "remove", P: engine.P(rapid.SampledFrom([]string{d0, "d1"}).Draw(t, "rm"))}
		case r < 99:
			files := existing("af", isFile)
			s = KStep{K: "add", P: engine.P(files)}
			if !strings.HasPrefix(files, "d1/") {
				s = KStep{K: "add", P: "d1"}
			}
		default:
			s = KStep{K: "add", P: engine.P(rapid.SampledFrom([]string{d0, "d1"}).Draw(t, "readd"))}
		}
		steps = append(steps, s)
		if inBurst > 0 {
			inBurst--
			if inBurst == 0 {
				steps = append(steps, KStep{K: "sync"})
			}
		} else {
			steps = append(steps, KStep{K: "sync"})
		}
	}
	steps = append(steps, KStep{K: "sync"})
	switch rapid.IntRange(0, 2).Draw(t, "ending") {
	case 0:
		steps = append(steps, KStep{K: "removeall"}, KStep{K: "close"})
	case 1:
		steps = append(steps, KStep{K: "close"})
	default:
		steps = append(steps, KStep{K: "removeall"})
	}
	c.Steps = steps
	return c
}
