// Package unix is a simulated golang.org/x/sys/unix for the kqueue backend:
// the identifiers backend_kqueue.go uses, with FreeBSD's constant values, on
// top of a simulated kqueue. Open performs a real open(2) so that a
// descriptor pins a real inode; vnode identity is (st_dev, st_ino).
// See DESIGN.md E4.
package unix

import (
	"sort"
	"sync"
	"syscall"
)

// FreeBSD values (sys/event.h, fcntl.h).
const (
	EV_ADD     = 0x1
	EV_DELETE  = 0x2
	EV_ENABLE  = 0x4
	EV_DISABLE = 0x8
	EV_ONESHOT = 0x10
	EV_CLEAR   = 0x20
	EV_EOF     = 0x8000

	EVFILT_READ  = -1
	EVFILT_VNODE = -4

	NOTE_DELETE = 0x1
	NOTE_WRITE  = 0x2
	NOTE_EXTEND = 0x4
	NOTE_ATTRIB = 0x8
	NOTE_LINK   = 0x10
	NOTE_RENAME = 0x20
	NOTE_REVOKE = 0x40

	O_RDONLY   = 0x0
	O_NONBLOCK = 0x4
	O_CLOEXEC  = 0x100000
)

const (
	EINTR  = syscall.EINTR
	EACCES = syscall.EACCES
	EPERM  = syscall.EPERM
)

type Timespec struct {
	Sec  int64
	Nsec int64
}

type Kevent_t struct {
	Ident  uint64
	Filter int16
	Flags  uint16
	Fflags uint32
	Data   int64
	Udata  *byte
}

func SetKevent(k *Kevent_t, fd, mode, flags int) {
	k.Ident = uint64(fd)
	k.Filter = int16(mode)
	k.Flags = uint16(flags)
}

type vnode struct{ dev, ino uint64 }

type fdent struct {
	kind  byte // 'v' vnode, 'q' kqueue, 'r' pipe read end, 'w' pipe write end
	vn    vnode
	path  string
	peer  int // pipes
	isDir bool
}

type knoteKey struct {
	kq     int
	ident  int
	filter int16
}

type knote struct {
	key     knoteKey
	flags   uint16
	sfflags uint32
	fflags  uint32 // pending
	active  bool
	eof     bool
}

type kqueue struct {
	pending []*knote // activation order
	waiting int      // goroutines asleep in Kevent with nothing to deliver
}

var (
	mu     sync.Mutex
	cond   = sync.NewCond(&mu)
	fds    = map[int]*fdent{}
	kqs    = map[int]*kqueue{}
	knotes = map[knoteKey]*knote{}
	hold   bool // delivery held by the harness (burst mode)

	// Stats / fault injection for the harness.
	NOpen, NClose, NKeventCalls int
	FailOpen                    func(path string) error
	// FailAdds makes the next FailAdds EV_ADD registrations of vnode filters
	// fail with ENOMEM (fault injection: kevent(2) can fail after open(2) succeeded).
	FailAdds int
)

// Reset forgets all simulated state (descriptors that are still open are
// closed for real).
func Reset() {
	mu.Lock()
	defer mu.Unlock()
	for fd := range fds {
		syscall.Close(fd)
	}
	fds = map[int]*fdent{}
	kqs = map[int]*kqueue{}
	knotes = map[knoteKey]*knote{}
	hold = false
	NOpen, NClose, NKeventCalls = 0, 0, 0
	FailOpen = nil
	FailAdds = 0
	cond.Broadcast()
}

func Kqueue() (int, error) {
	fd, err := syscall.Open("/dev/null", syscall.O_RDONLY|syscall.O_CLOEXEC, 0)
	if err != nil {
		return -1, err
	}
	mu.Lock()
	defer mu.Unlock()
	fds[fd] = &fdent{kind: 'q'}
	kqs[fd] = &kqueue{}
	return fd, nil
}

func Pipe(p []int) error {
	var pp [2]int
	if err := syscall.Pipe2(pp[:], 0); err != nil {
		return err
	}
	mu.Lock()
	defer mu.Unlock()
	fds[pp[0]] = &fdent{kind: 'r', peer: pp[1]}
	fds[pp[1]] = &fdent{kind: 'w', peer: pp[0]}
	p[0], p[1] = pp[0], pp[1]
	return nil
}

func CloseOnExec(fd int) { syscall.CloseOnExec(fd) }

// Open opens path for watching. BSD open(2) without O_NOFOLLOW follows
// symbolic links, like Linux.
func Open(path string, mode int, perm uint32) (int, error) {
	if f := FailOpen; f != nil {
		if err := f(path); err != nil {
			return -1, err
		}
	}
	lmode := syscall.O_RDONLY | syscall.O_NONBLOCK | syscall.O_CLOEXEC
	fd, err := syscall.Open(path, lmode, perm)
	if err != nil {
		return -1, err
	}
	var st syscall.Stat_t
	if err := syscall.Fstat(fd, &st); err != nil {
		syscall.Close(fd)
		return -1, err
	}
	mu.Lock()
	defer mu.Unlock()
	NOpen++
	fds[fd] = &fdent{kind: 'v', vn: vnode{uint64(st.Dev), st.Ino}, path: path, isDir: st.Mode&syscall.S_IFMT == syscall.S_IFDIR}
	return fd, nil
}

func activate(kn *knote) {
	if kn.active {
		return
	}
	kn.active = true
	q := kqs[kn.key.kq]
	if q != nil {
		q.pending = append(q.pending, kn)
	}
}

func dropKnote(kn *knote) {
	delete(knotes, kn.key)
	if q := kqs[kn.key.kq]; q != nil {
		for i, p := range q.pending {
			if p == kn {
				q.pending = append(q.pending[:i:i], q.pending[i+1:]...)
				break
			}
		}
	}
}

func Close(fd int) error {
	mu.Lock()
	e := fds[fd]
	if e == nil {
		mu.Unlock()
		return syscall.EBADF
	}
	delete(fds, fd)
	NClose++
	// closing a descriptor removes the knotes attached to it
	for k, kn := range knotes {
		if k.ident == fd {
			dropKnote(kn)
		}
	}
	switch e.kind {
	case 'w':
		// the read end becomes readable (EOF)
		for k, kn := range knotes {
			if k.ident == e.peer && k.filter == EVFILT_READ {
				kn.eof = true
				activate(kn)
			}
		}
	case 'q':
		for k, kn := range knotes {
			if k.kq == fd {
				delete(knotes, k)
				_ = kn
			}
		}
		delete(kqs, fd)
	}
	cond.Broadcast()
	mu.Unlock()
	return syscall.Close(fd)
}

func Kevent(kq int, changes, events []Kevent_t, timeout *Timespec) (int, error) {
	mu.Lock()
	defer mu.Unlock()
	NKeventCalls++
	q := kqs[kq]
	if q == nil {
		return -1, syscall.EBADF
	}
	for _, c := range changes {
		key := knoteKey{kq, int(c.Ident), c.Filter}
		switch {
		case c.Flags&EV_DELETE != 0:
			kn := knotes[key]
			if kn == nil {
				return -1, syscall.ENOENT
			}
			dropKnote(kn)
		case c.Flags&EV_ADD != 0:
			e := fds[int(c.Ident)]
			if e == nil {
				return -1, syscall.EBADF
			}
			if c.Filter == EVFILT_VNODE && FailAdds > 0 {
				FailAdds--
				return -1, syscall.ENOMEM
			}
			kn := knotes[key]
			if kn == nil {
				kn = &knote{key: key}
				knotes[key] = kn
			}
			kn.flags = c.Flags
			kn.sfflags = c.Fflags
			if c.Filter == EVFILT_READ && e.kind == 'r' {
				if _, open := fds[e.peer]; !open {
					kn.eof = true
					activate(kn)
				}
			}
		}
	}
	if len(events) == 0 {
		return 0, nil
	}
	for len(q.pending) == 0 || hold {
		q.waiting++
		cond.Broadcast() // let SimWaitIdle observe the sleeping reader
		cond.Wait()
		q.waiting--
		if kqs[kq] != q {
			return -1, syscall.EBADF
		}
	}
	n := 0
	for n < len(events) && len(q.pending) > 0 {
		kn := q.pending[0]
		q.pending = q.pending[1:]
		kn.active = false
		ev := Kevent_t{Ident: uint64(kn.key.ident), Filter: kn.key.filter, Flags: kn.flags, Fflags: kn.fflags}
		if kn.eof {
			ev.Flags |= EV_EOF
		}
		events[n] = ev
		n++
		if kn.flags&EV_CLEAR != 0 {
			kn.fflags = 0
		}
		if kn.flags&EV_ONESHOT != 0 {
			delete(knotes, kn.key)
		}
	}
	return n, nil
}

// ---- harness side ----------------------------------------------------------

// Identify returns the vnode identity of path (without following a final
// symlink when nofollow is set); ok is false when it does not exist.
func Identify(path string, nofollow bool) (dev, ino uint64, ok bool) {
	var st syscall.Stat_t
	var err error
	if nofollow {
		err = syscall.Lstat(path, &st)
	} else {
		err = syscall.Stat(path, &st)
	}
	if err != nil {
		return 0, 0, false
	}
	return uint64(st.Dev), st.Ino, true
}

// Notify raises NOTE_* flags on every knote attached to the vnode, as the
// vop_*_post hooks of the BSD kernels do.
func Notify(dev, ino uint64, fflags uint32) {
	mu.Lock()
	defer mu.Unlock()
	for k, kn := range knotes {
		if k.filter != EVFILT_VNODE {
			continue
		}
		e := fds[k.ident]
		if e == nil || e.kind != 'v' || e.vn != (vnode{dev, ino}) {
			continue
		}
		if hit := fflags & kn.sfflags; hit != 0 {
			kn.fflags |= hit
			activate(kn)
		}
	}
	cond.Broadcast()
}

// Hold stops delivery of events (they accumulate); Release resumes it.
func Hold() { mu.Lock(); hold = true; mu.Unlock() }
func Release() {
	mu.Lock()
	hold = false
	cond.Broadcast()
	mu.Unlock()
}

// Atomically runs f with delivery held, so that the notes one filesystem
// operation raises on several vnodes become visible to Kevent together, as
// they do for a system call (a delivery hold already in force stays).
func Atomically(f func()) {
	mu.Lock()
	was := hold
	hold = true
	mu.Unlock()
	f()
	mu.Lock()
	hold = was
	if !was {
		cond.Broadcast()
	}
	mu.Unlock()
}

// WaitIdle blocks until every kqueue has nothing pending and its reader is
// asleep in Kevent: everything raised so far has been handled completely.
func WaitIdle() {
	mu.Lock()
	defer mu.Unlock()
	for {
		idle := true
		for _, q := range kqs {
			if len(q.pending) > 0 || q.waiting == 0 {
				idle = false
			}
		}
		if idle {
			return
		}
		cond.Wait()
	}
}

// KillReaders makes every sleeping Kevent call return EBADF (as if the kqueue
// had been closed under it) while the descriptors stay valid, so that a reader
// goroutine which nothing else would wake runs its clean-up now and cannot
// close descriptor numbers of a later Watcher.
func KillReaders() {
	mu.Lock()
	defer mu.Unlock()
	kqs = map[int]*kqueue{}
	cond.Broadcast()
}

// Idle reports whether every kqueue has nothing pending and its reader asleep
// in Kevent right now.
func Idle() bool {
	mu.Lock()
	defer mu.Unlock()
	for _, q := range kqs {
		if len(q.pending) > 0 || q.waiting == 0 {
			return false
		}
	}
	return true
}

// OpenVnodeFds lists descriptors opened through Open and not closed yet.
func OpenVnodeFds() []int {
	mu.Lock()
	defer mu.Unlock()
	var out []int
	for fd, e := range fds {
		if e.kind == 'v' {
			out = append(out, fd)
		}
	}
	sort.Ints(out)
	return out
}

// OpenOtherFds lists kqueue and pipe descriptors that are still open.
func OpenOtherFds() []int {
	mu.Lock()
	defer mu.Unlock()
	var out []int
	for fd, e := range fds {
		if e.kind != 'v' {
			out = append(out, fd)
		}
	}
	sort.Ints(out)
	return out
}

// FdPath returns the path a vnode descriptor was opened with.
func FdPath(fd int) string {
	mu.Lock()
	defer mu.Unlock()
	if e := fds[fd]; e != nil {
		return e.path
	}
	return ""
}

// KnoteCount returns the number of registered vnode knotes.
func KnoteCount() int {
	mu.Lock()
	defer mu.Unlock()
	n := 0
	for k := range knotes {
		if k.filter == EVFILT_VNODE {
			n++
		}
	}
	return n
}

// SetFailAdds arms the registration fault (under the simulator's lock).
func SetFailAdds(n int) { mu.Lock(); FailAdds = n; mu.Unlock() }
