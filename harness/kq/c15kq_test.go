package fsnotify

import (
	"fmt"
	"math/bits"
	"os"
	"testing"

	"verif/harness/engine"
	"verif/harness/kq/unix"
)

type c15Replay struct {
	Prop    string `json:"prop"`
	Backend string `json:"backend"`
	Kind    string `json:"kind"`
	Mask    uint64 `json:"mask"`
	Cookie  uint32 `json:"cookie"`
	Ops     uint32 `json:"ops"`
	Msg     string `json:"msg"`
}

func (r c15Replay) Save(p string) error { return engine.SaveJSON(p, r) }

// documented kqueue table: NOTE_DELETE -> Remove, NOTE_WRITE -> Write,
// NOTE_RENAME -> Rename, NOTE_ATTRIB -> Chmod; Write is dropped when Remove is
// present; every other NOTE_* bit yields nothing.
func checkKqTranslate(mask uint32, link string) error {
	var want Op
	if mask&unix.NOTE_DELETE != 0 {
		want |= Remove
	}
	if mask&unix.NOTE_WRITE != 0 {
		want |= Write
	}
	if mask&unix.NOTE_RENAME != 0 {
		want |= Rename
	}
	if mask&unix.NOTE_ATTRIB != 0 {
		want |= Chmod
	}
	if want&Remove != 0 {
		want &^= Write
	}
	e := (&kqueue{}).newEvent("n", link, mask)
	if e.Op != want {
		return fmt.Errorf("kqueue fflags %#x translate to %s, documented is %s", mask, e.Op, want)
	}
	wantName := "n"
	if link != "" {
		wantName = link
	}
	if e.Name != wantName {
		return fmt.Errorf("kqueue event name %q, want %q", e.Name, wantName)
	}
	return nil
}

func checkKqSupports(ops uint32) error {
	want := ops&^0x1f == 0
	if got := (&kqueue{}).xSupports(Op(ops)); got != want {
		return fmt.Errorf("kqueue: xSupports(%s)=%v, want %v", Op(ops), got, want)
	}
	return nil
}

func checkKqRequest() error {
	// the default request must be exactly what is needed to observe the four
	// operations kqueue reports
	const want = unix.NOTE_DELETE | unix.NOTE_WRITE | unix.NOTE_ATTRIB | unix.NOTE_RENAME
	if noteAllEvents != want {
		return fmt.Errorf("kqueue subscribes to %#x, documented need is %#x", noteAllEvents, want)
	}
	return nil
}

func TestC15Kqueue(t *testing.T) {
	st := engine.StatsFor("C15")
	fail := func(r c15Replay, err error) {
		r.Prop, r.Backend, r.Msg = "C15", "kqueue", err.Error()
		t.Fatalf("property C15 violated (replay %s): %v", engine.SaveReplay("C15", r), err)
	}
	for m := uint32(0); m < 1<<11; m++ {
		for i, link := range []string{"", "l"} {
			st.Eval()
			if err := checkKqTranslate(m, link); err != nil {
				fail(c15Replay{Kind: "translate", Mask: uint64(m), Cookie: uint32(i)}, err)
			}
		}
		if bits.OnesCount32(m) >= 2 {
			st.NonTrivial(fmt.Sprintf("kq%x", m), fmt.Sprintf("kqueue fflags %#x -> %s", m, (&kqueue{}).newEvent("n", "", m).Op))
		}
	}
	for ops := uint32(0); ops < 1<<9; ops++ {
		st.Eval()
		if err := checkKqSupports(ops); err != nil {
			fail(c15Replay{Kind: "supports", Ops: ops}, err)
		}
	}
	st.Eval()
	if err := checkKqRequest(); err != nil {
		fail(c15Replay{Kind: "request"}, err)
	}
	st.Extra["kqueue_fflag_masks"] = 1 << 11
}

func TestReplayC15Kqueue(t *testing.T) {
	p := os.Getenv("VERIF_REPLAY")
	if p == "" {
		t.Skip()
	}
	var r c15Replay
	if err := engine.LoadJSON(p, &r); err != nil {
		t.Fatal(err)
	}
	if r.Backend != "kqueue" {
		t.Skip("other backend")
	}
	engine.StatsFor("C15").Eval()
	var err error
	switch r.Kind {
	case "translate":
		err = checkKqTranslate(uint32(r.Mask), map[uint32]string{0: "", 1: "l"}[r.Cookie])
	case "supports":
		err = checkKqSupports(r.Ops)
	case "request":
		err = checkKqRequest()
	}
	if err != nil {
		t.Fatalf("property C15 violated (replay %s): %v", p, err)
	}
}
