// Package fsnotify (directory harness/kq) is the kqueue backend of the code
// under test, compiled on Linux: backend_kqueue.go, shared.go, fsnotify.go and
// system_bsd.go are copied from the /repo working tree at check time by
// harness/gen (build-tag line dropped, x/sys/unix and internal imports
// redirected to the simulated packages below this directory) and injected with
// `go test -overlay`. The files in this directory are harness code only.
package fsnotify
