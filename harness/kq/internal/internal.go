// Package internal stands in for github.com/fsnotify/fsnotify/internal when
// the kqueue backend is compiled on Linux by the harness.
package internal

import "verif/harness/kq/unix"

func Debug(name string, kevent *unix.Kevent_t) {}
