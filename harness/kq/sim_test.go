package fsnotify

import (
	"fmt"
	"io/fs"
	"os"
	"path/filepath"
	"sort"
	"strconv"
	"strings"
	"sync"
	"syscall"
	"testing"
	"time"

	"verif/harness/engine"
	"verif/harness/kq/unix"
)

func TestMain(m *testing.M) { engine.Main(m) }

// ---- notifying filesystem layer ---------------------------------------------
//
// Each function performs the real operation and then raises what FreeBSD's
// vop_*_post hooks raise (sys/kern/vfs_subr.c): see DESIGN.md E4.

type ident struct {
	dev, ino uint64
	ok       bool
	dir      bool
}

func lident(p string) ident {
	var st syscall.Stat_t
	if err := syscall.Lstat(p, &st); err != nil {
		return ident{}
	}
	return ident{uint64(st.Dev), st.Ino, true, st.Mode&syscall.S_IFMT == syscall.S_IFDIR}
}

func sident(p string) ident {
	var st syscall.Stat_t
	if err := syscall.Stat(p, &st); err != nil {
		return ident{}
	}
	return ident{uint64(st.Dev), st.Ino, true, st.Mode&syscall.S_IFMT == syscall.S_IFDIR}
}

func (i ident) note(f uint32) {
	if i.ok {
		unix.Notify(i.dev, i.ino, f)
	}
}

func parentOf(p string) ident { return sident(filepath.Dir(p)) }

func kCreate(p string) error {
	fd, err := syscall.Open(p, syscall.O_CREAT|syscall.O_EXCL|syscall.O_WRONLY|syscall.O_CLOEXEC, 0o644)
	if err != nil {
		return err
	}
	syscall.Close(fd)
	parentOf(p).note(unix.NOTE_WRITE)
	return nil
}

// kTouch is os.Create: creates, or truncates an existing file.
func kTouch(p string) error {
	existed := sident(p).ok
	f, err := os.Create(p)
	if err != nil {
		return err
	}
	f.Close()
	if existed {
		sident(p).note(unix.NOTE_ATTRIB)
	} else {
		parentOf(p).note(unix.NOTE_WRITE)
	}
	return nil
}

func kWrite(p string, n int) error {
	fd, err := syscall.Open(p, syscall.O_WRONLY|syscall.O_APPEND|syscall.O_CLOEXEC|syscall.O_NONBLOCK, 0)
	if err != nil {
		return err
	}
	if n < 1 {
		n = 1
	}
	_, err = syscall.Write(fd, make([]byte, n))
	syscall.Close(fd)
	if err == nil {
		sident(p).note(unix.NOTE_WRITE | unix.NOTE_EXTEND)
	}
	return err
}

// kEcho is the script's echo: create if needed, truncate or append, write.
func kEcho(trunc bool, data, p string, between func()) error {
	existed := sident(p).ok
	flags := os.O_RDWR | os.O_CREATE | os.O_APPEND
	if trunc {
		flags = os.O_RDWR | os.O_CREATE | os.O_TRUNC
	}
	f, err := os.OpenFile(p, flags, 0o666)
	if err != nil {
		return err
	}
	if !existed {
		parentOf(p).note(unix.NOTE_WRITE)
	} else if trunc {
		sident(p).note(unix.NOTE_ATTRIB)
	}
	if between != nil {
		between() // the repository's helper lets events settle between open and write
	}
	_, err = f.WriteString(data)
	f.Close()
	if err == nil {
		sident(p).note(unix.NOTE_WRITE | unix.NOTE_EXTEND)
	}
	return err
}

func kTruncate(p string, sz int64) error {
	if err := syscall.Truncate(p, sz); err != nil {
		return err
	}
	sident(p).note(unix.NOTE_ATTRIB)
	return nil
}

func kChmod(p string, mode uint32) error {
	if err := syscall.Chmod(p, mode); err != nil {
		return err
	}
	sident(p).note(unix.NOTE_ATTRIB)
	return nil
}

func kUnlink(p string) error {
	id, par := lident(p), parentOf(p)
	if err := syscall.Unlink(p); err != nil {
		return err
	}
	unix.Atomically(func() {
		par.note(unix.NOTE_WRITE)
		id.note(unix.NOTE_DELETE)
	})
	return nil
}

func kMkdir(p string) error {
	if err := syscall.Mkdir(p, 0o755); err != nil {
		return err
	}
	parentOf(p).note(unix.NOTE_WRITE | unix.NOTE_LINK)
	return nil
}

func kRmdir(p string) error {
	id, par := lident(p), parentOf(p)
	if err := syscall.Rmdir(p); err != nil {
		return err
	}
	unix.Atomically(func() {
		par.note(unix.NOTE_WRITE | unix.NOTE_LINK)
		id.note(unix.NOTE_DELETE)
	})
	return nil
}

func kRemove(p string) error { // os.Remove: unlink or rmdir
	if id := lident(p); id.ok && id.dir {
		return kRmdir(p)
	}
	return kUnlink(p)
}

func kRename(a, b string) error {
	src, dst := lident(a), lident(b)
	da, db := parentOf(a), parentOf(b)
	if err := syscall.Rename(a, b); err != nil {
		return err
	}
	if dst.ok && dst.dev == src.dev && dst.ino == src.ino {
		return nil // same file: rename(2) does nothing
	}
	f := uint32(unix.NOTE_WRITE)
	if src.dir {
		f |= unix.NOTE_LINK
	}
	unix.Atomically(func() {
		da.note(f)
		db.note(f)
		src.note(unix.NOTE_RENAME)
		if dst.ok && !(dst.dev == src.dev && dst.ino == src.ino) {
			dst.note(unix.NOTE_DELETE)
		}
	})
	return nil
}

func kSymlink(target, p string) error {
	if err := syscall.Symlink(target, p); err != nil {
		return err
	}
	parentOf(p).note(unix.NOTE_WRITE)
	return nil
}

func kMkfifo(p string) error {
	if err := syscall.Mkfifo(p, 0o644); err != nil {
		return err
	}
	parentOf(p).note(unix.NOTE_WRITE)
	return nil
}

func kMkdirAll(p string) error {
	var todo []string
	for q := p; ; q = filepath.Dir(q) {
		if lident(q).ok || q == "/" || q == "." {
			break
		}
		todo = append(todo, q)
	}
	for i := len(todo) - 1; i >= 0; i-- {
		if err := kMkdir(todo[i]); err != nil {
			return err
		}
	}
	return nil
}

func kRemoveAll(p string) error {
	id := lident(p)
	if !id.ok {
		return nil
	}
	if id.dir {
		ents, _ := os.ReadDir(p)
		for _, e := range ents {
			if err := kRemoveAll(filepath.Join(p, e.Name())); err != nil {
				return err
			}
		}
		return kRmdir(p)
	}
	return kUnlink(p)
}

// ---- collector ---------------------------------------------------------------

type collector struct {
	w     *Watcher
	mu    sync.Mutex
	evs   []Event
	errs  []error
	done  chan struct{}
	flush chan chan struct{}
}

func collect(w *Watcher) *collector {
	c := &collector{w: w, done: make(chan struct{}), flush: make(chan chan struct{})}
	go func() {
		defer close(c.done)
		ev, er := w.Events, w.Errors
		addEv := func(e Event) {
			c.mu.Lock()
			c.evs = append(c.evs, e)
			c.mu.Unlock()
		}
		addEr := func(e error) {
			c.mu.Lock()
			c.errs = append(c.errs, e)
			c.mu.Unlock()
		}
		for ev != nil || er != nil {
			select {
			case e, ok := <-ev:
				if !ok {
					ev = nil
					continue
				}
				addEv(e)
			case e, ok := <-er:
				if !ok {
					er = nil
					continue
				}
				addEr(e)
			case reply := <-c.flush:
				// take everything that is already buffered, then acknowledge
			drain:
				for {
					select {
					case e, ok := <-ev:
						if !ok {
							ev = nil
							break drain
						}
						addEv(e)
					case e, ok := <-er:
						if !ok {
							er = nil
							break drain
						}
						addEr(e)
					default:
						break drain
					}
				}
				close(reply)
			}
		}
	}()
	return c
}

// settle makes sure everything sent so far has been stored.
func (c *collector) settle() {
	reply := make(chan struct{})
	select {
	case c.flush <- reply:
		<-reply
	case <-c.done:
	}
}

// take returns and clears what has been collected so far.
func (c *collector) take() ([]Event, []error) {
	c.mu.Lock()
	defer c.mu.Unlock()
	e, r := c.evs, c.errs
	c.evs, c.errs = nil, nil
	return e, r
}

func init() {
	// the backend under test is this package's copy of the kqueue backend
	engine.CodeFrames = []string{"harness/kq.(*kqueue).", "harness/kq.(*shared).", "harness/kq.(*watches).", "harness/kq.(*Watcher)."}
	engine.BackendFrames = engine.CodeFrames
	engine.CodeFrames = append([]string{"harness/kq.kCallFrame"}, engine.CodeFrames...)
}

// waitNoReader waits (bounded) until no reader goroutine of an earlier Watcher
// is left. The reader closes the channels first and its kqueue and pipe
// descriptors afterwards; a new simulated world must not start in between, or
// those late closes hit descriptor numbers the new Watcher has been given.
func waitNoReader() {
	deadline := time.Now().Add(3 * time.Second)
	for {
		if _, st, _ := engine.GoroutineState("harness/kq.(*kqueue).readEvents"); st == "" {
			return
		}
		if time.Now().After(deadline) {
			return
		}
		time.Sleep(50 * time.Microsecond)
	}
}

// kWedged is the verdict of a wait that did not end: proof that the backend
// can make no progress any more (a goroutine of it blocked for good with
// nobody inside the backend able to run), or "" when there is no such proof.
func kWedged() string {
	for _, marker := range []string{"harness/kq.(*kqueue).readEvents", "harness/kq.kCallFrame"} {
		if p := engine.BlockedProof(marker); p != "" {
			return p
		}
	}
	return ""
}

// kCallFrame marks API calls made by the harness in goroutine dumps.
//
//go:noinline
func kCallFrame(f func()) { f() }

// kCall runs one API call; it returns proof that the call is blocked for good,
// or "" when it returned (a call that is merely slow ends the run as
// inconclusive).
func kCall(what string, f func()) string {
	done := make(chan struct{})
	gid := make(chan string, 1)
	go func() {
		gid <- engine.GoID()
		kCallFrame(f)
		close(done)
	}()
	marker := "gid:" + <-gid
	for i := 0; i < 6; i++ {
		select {
		case <-done:
			return ""
		case <-time.After(5 * time.Second):
		}
		if p := engine.BlockedProof(marker); p != "" {
			return what + " does not return\n" + p
		}
	}
	select {
	case <-done:
		return ""
	default:
	}
	engine.ExitInconclusive(what + " is late but not provably blocked\n" + strings.Join(engine.Goroutines(), "\n\n"))
	return ""
}

// quiesce waits until everything raised so far has been handled and collected.
// It returns proof of a deadlock when the backend can provably never get there.
func quiesce(c *collector) string {
	done := make(chan struct{})
	go func() { unix.WaitIdle(); close(done) }()
	for i := 0; ; i++ {
		select {
		case <-done:
			// the reader sleeps in Kevent, so every send has completed (or sits
			// in the channel buffer); let the collector store what it received
			c.settle()
			return ""
		case <-time.After(5 * time.Second):
		}
		if p := kWedged(); p != "" {
			return "the backend never finishes handling what was raised\n" + p
		}
		if i >= 5 {
			engine.ExitInconclusive("simulated kqueue did not become idle\n" + strings.Join(engine.Goroutines(), "\n\n"))
		}
	}
}

func evString(evs []Event) string {
	var s []string
	for _, e := range evs {
		s = append(s, fmt.Sprintf("%s %q", e.Op, e.Name))
	}
	return "[" + strings.Join(s, ", ") + "]"
}

// ---- replay of the repository's testdata scripts ------------------------------

type scriptResult struct {
	skipped string
	have    []string
	want    []string
}

func wantFor(want string) []string {
	groups := []string{""}
	events := map[string][]string{}
	for _, line := range strings.Split(want, "\n") {
		if i := strings.IndexByte(line, '#'); i > -1 {
			line = line[:i]
		}
		line = strings.TrimSpace(line)
		if line == "" {
			continue
		}
		if strings.HasSuffix(line, ":") {
			groups = strings.Split(strings.TrimRight(line, ":"), ",")
			for i := range groups {
				groups[i] = strings.TrimSpace(groups[i])
			}
			continue
		}
		f := strings.Fields(line)
		if len(f) != 2 && len(f) != 4 {
			if strings.ToLower(f[0]) == "empty" || strings.ToLower(f[0]) == "no-events" {
				for _, g := range groups {
					events[g] = []string{}
				}
			}
			continue
		}
		ev := strings.ToUpper(f[0]) + " " + strings.Trim(f[1], `"`) // renamedFrom is not supported on kqueue
		for _, g := range groups {
			events[g] = append(events[g], ev)
		}
	}
	for _, g := range []string{"freebsd", "kqueue", ""} {
		if e, ok := events[g]; ok {
			return e
		}
	}
	return nil
}

func tmppath(tmp, s string) string {
	if s == "" {
		return ""
	}
	if !strings.HasPrefix(s, "./") {
		return filepath.Join(tmp, s)
	}
	return s
}

func runScript(t *testing.T, text string) scriptResult {
	var res scriptResult
	tmp, err := os.MkdirTemp("", "kqs")
	if err != nil {
		t.Fatal(err)
	}
	defer os.RemoveAll(tmp)
	lines := strings.Split(text, "\n")
	var cmds [][]string
	var want string
	readW := false
	for _, line := range lines {
		line = strings.TrimSpace(line)
		if line == "" || line[0] == '#' {
			continue
		}
		if i := strings.IndexByte(line, '#'); i > -1 {
			line = strings.TrimSpace(line[:i])
		}
		if line == "Output:" {
			readW = true
			continue
		}
		if readW {
			want += line + "\n"
			continue
		}
		var args []string
		var cur []rune
		q := false
		for _, c := range line {
			switch c {
			case ' ', '\t':
				if q {
					cur = append(cur, c)
				} else if len(cur) > 0 {
					args = append(args, string(cur))
					cur = cur[:0]
				}
			case '"', '\'':
				q = !q
			default:
				cur = append(cur, c)
			}
		}
		if len(cur) > 0 {
			args = append(args, string(cur))
		}
		cmds = append(cmds, args)
	}
	// skip rules as they apply on freebsd
	for _, c := range cmds {
		if c[0] == "skip" || c[0] == "require" {
			switch c[1] {
			case "op_all", "op_open", "op_read", "op_close_write", "op_close_read", "always", "mknod", "recurse", "filter", "nofollow":
				res.skipped = c[0] + " " + c[1]
				return res
			}
		}
	}
	waitNoReader()
	unix.Reset()
	w, err := NewWatcher()
	if err != nil {
		t.Fatal(err)
	}
	col := collect(w)
	if p := quiesce(col); p != "" {
		panic(p)
	}
	must := func(err error, c []string) {
		if err != nil {
			t.Fatalf("script command %q: %v", c, err)
		}
	}
loop:
	for _, c := range cmds {
		switch c[0] {
		case "skip", "require", "debug", "state", "print", "sleep":
		case "stop":
			break loop
		case "watch":
			must(w.Add(tmppath(tmp, c[1])), c)
		case "unwatch":
			must(w.Remove(tmppath(tmp, c[1])), c)
		case "watchlist":
			n, _ := strconv.Atoi(c[1])
			if l := len(w.WatchList()); l != n {
				t.Errorf("script: watchlist has %d entries, not %d", l, n)
			}
		case "touch":
			must(kTouch(tmppath(tmp, c[1])), c)
		case "mkdir":
			if len(c) == 3 && c[1] == "-p" {
				must(kMkdirAll(tmppath(tmp, c[2])), c)
			} else {
				must(kMkdir(tmppath(tmp, c[1])), c)
			}
		case "ln":
			must(kSymlink(tmppath(tmp, c[2]), tmppath(tmp, c[3])), c)
		case "mkfifo":
			must(kMkfifo(tmppath(tmp, c[1])), c)
		case "mv":
			must(kRename(tmppath(tmp, c[1]), tmppath(tmp, c[2])), c)
		case "rm":
			if len(c) == 3 && c[1] == "-r" {
				must(kRemoveAll(tmppath(tmp, c[2])), c)
			} else {
				must(kRemove(tmppath(tmp, c[1])), c)
			}
		case "chmod":
			n, _ := strconv.ParseUint(c[1], 8, 32)
			must(kChmod(tmppath(tmp, c[2]), uint32(fs.FileMode(n))), c)
		case "cat":
			_, err := os.ReadFile(tmppath(tmp, c[1]))
			must(err, c)
		case "echo":
			var data, op, dst string
			if len(c) == 3 {
				data, op, dst = c[1], c[2][:1], c[2][1:]
				if strings.HasPrefix(dst, ">") {
					op, dst = op+dst[:1], dst[1:]
				}
			} else {
				data, op, dst = c[1], c[2], c[3]
			}
			must(kEcho(op == ">", data, tmppath(tmp, dst), func() {
				if p := quiesce(col); p != "" {
					panic(p)
				}
			}), c)
		default:
			t.Fatalf("script: unknown command %q", c)
		}
		if p := quiesce(col); p != "" {
			panic(p)
		}
	}
	evs, _ := col.take()
	w.Close()
	select {
	case <-col.done:
	case <-time.After(2 * time.Second):
		// the reader does not exit after Close: the generated cases report
		// that (C17); the script's events can be compared regardless. The
		// stale reader is made to leave before the next Watcher exists.
		unix.KillReaders()
		select {
		case <-col.done:
		case <-time.After(2 * time.Second):
		}
	}
	waitNoReader()
	for _, e := range evs {
		n := e.Name
		if n == tmp {
			n = "/"
		} else {
			n = strings.TrimPrefix(n, tmp)
		}
		res.have = append(res.have, e.Op.String()+" "+n)
	}
	res.want = wantFor(want)
	sort.Strings(res.have)
	sort.Strings(res.want)
	return res
}

// Scripts the simulator is not expected to match, each with its reason.
var scriptExcluded = map[string]string{
	"watch-dir/unreadable-file":      "needs a file the process cannot open; the harness runs as root",
	"watch-dir/make-file-unreadable": "needs a file the process cannot open; the harness runs as root",
}

// validateSimulator replays every applicable testdata script against the
// recorded freebsd/kqueue expectation; returns (#matched, #skipped by the
// script's own require/skip rules, mismatch descriptions).
func validateSimulator(t *testing.T) (matched, skipped int, mismatches []string, names []string) {
	root := filepath.Join(os.Getenv("VERIF_REPO"), "testdata")
	if os.Getenv("VERIF_REPO") == "" {
		root = "/repo/testdata"
	}
	filepath.WalkDir(root, func(p string, d fs.DirEntry, err error) error {
		if err != nil || d.IsDir() {
			return nil
		}
		rel, _ := filepath.Rel(root, p)
		if _, ex := scriptExcluded[rel]; ex {
			return nil
		}
		b, err := os.ReadFile(p)
		if err != nil {
			return nil
		}
		r := runScript(t, string(b))
		switch {
		case r.skipped != "":
			skipped++
		case strings.Join(r.have, "\n") == strings.Join(r.want, "\n"):
			matched++
			names = append(names, rel)
		default:
			mismatches = append(mismatches, fmt.Sprintf("%s:\n  have %q\n  want %q", rel, r.have, r.want))
		}
		return nil
	})
	return
}

func TestSimulatorAgainstTestdata(t *testing.T) {
	m, s, mm, _ := validateSimulator(t)
	t.Logf("matched %d, skipped %d, mismatched %d", m, s, len(mm))
	for _, x := range mm {
		t.Log(x)
	}
}
