"""Per-property configuration of ./check (case budgets, packages, evidence text)."""

E1_ASSUME = [
    "two inotify instances with marks on the same inodes and the same masks receive the same notification sequence for a single-threaded history (shadow instance = ground truth of what the kernel reported)",
    "notifications (incl. IN_DELETE_SELF/IN_IGNORED of the final iput) are queued before the originating syscall returns",
    "shadow watch descriptors are not reused within a case (the kernel allocates them cyclically)",
    "the kernel merges only adjacent identical notifications (run-length rule in burst segments)",
    "one inotify queue is FIFO and fsnotify has one reader, so everything queued before the sentinel is handled before the sentinel is delivered",
]


def e1(test, rule, quick=400, thorough=3000, **kw):
    d = dict(pkg="props", test=test, level="exploration", rule=rule, assumptions=E1_ASSUME,
             quick=dict(checks=quick, shards=1, cap_s=900), thorough=dict(checks=thorough, shards=16, cap_s=3300),
             crash_is_violation=True, vlimit_kb=8 * 1024 * 1024)
    d.update(kw)
    return d


GEN_RULE = ("cases are drawn by rapid from the shared history generator (fs-op histories over 3-4 directories and a pool of 3-6 generated "
            "entry names, Add/Remove/WatchList at quiescent points, segments run quiescent / plugged burst / free-running burst, lifecycle macros (watched path replaced while its old file lives on through a hard link or open descriptor - once, twice, "
            "with and without re-Add, with the parent watched; renamed and removed under the new name before the reader saw the rename; failed re-Add; watched directory moved and a watched file inside removed; delete-recreate-readd with events pending), "
            "Add/Remove with events pending (add!, remove!), blocking partial receives after which the reader is parked again, consumer pauses, "
            "Events capacity drawn per case); distinct = hash of the skeleton (capacity + step kinds + directory of each path + success/failure of each step); ")

def pure(rule, parts, quick, thorough, **kw):
    d = dict(level="exploration", rule=rule, parts=parts, rapid=False, crash_is_violation=True, quick=dict(checks=quick, shards=1, cap_s=600),
             thorough=dict(checks=thorough, shards=4, cap_s=1800), assumptions=kw.pop("assumptions", []))
    d.update(kw)
    return d


PROPS = {
    "C01": e1("TestC01", GEN_RULE + "non-trivial = >=4 events expected and at least one of: a plugged burst with >=2 notifications in one read, an entry name within 1 of a multiple of 16 bytes, a file-and-parent double report, a hard-link/held-descriptor/overwrite op that produced notifications"),
    "C02": e1("TestC02", GEN_RULE + "non-trivial = >=3 delivered events and >=1 op that is silent by specification (unwatched place, after Remove, housekeeping notification)"),
    "C03": e1("TestC03", GEN_RULE + "non-trivial = >=2 watches delivered events, >=6 events, and a rename pair or a name with two incarnations; C03 cases run on past merely-missing events: an event due before an earlier quiescent point that turns up later counts as overtaken"),
    "C04": e1("TestC04", GEN_RULE + "non-trivial = a successful Add and one of: alias Add, failed Add after a successful one, Remove of unlisted path, re-Add after an fs mutation"),
    "C08": e1("TestC08", GEN_RULE + "non-trivial = unclean/relative/symlinked Add spelling and an entry name that is multi-byte or within 1 of a padding boundary decoded at offset > 0"),
    "C09": e1("TestC09", GEN_RULE + "non-trivial = a listed watch ended by a filesystem op (not Remove) followed by >=2 further ops"),
    "C10": e1("TestC10", GEN_RULE + "non-trivial = a step removed a kernel watch while >=1 notification for it was still unread (plugged)"),
    "C11": e1("TestC11", GEN_RULE + "non-trivial = an unmatched move-out before a matched move, or >10 moves; 12% of plugged bursts remove a watched directory between the halves of a move, 5% of bursts keep the consumer away for 1.1-2.5 s"),
    "C12": e1("TestC12", GEN_RULE + "non-trivial = a re-Add of a listed path naming a new inode while the old one is alive, or >=3 add/remove cycles"),
    "C15": pure("exhaustive enumeration: all 2^16 combinations of the 16 inotify flags x cookie in {0,7} through the real translation function; all 2^9-1 "
                "requested operation sets x follow/nofollow with the kernel mask read back from /proc/self/fdinfo; all 2^11 kqueue NOTE_* "
                "combinations x link name; all 2^16 Windows masks, actions 0..8, 2^17 subscription masks; xSupports on all 2^9 sets for inotify, kqueue, "
                "Windows, FEN. non-trivial = a combination of >=2 flags/operations (distinct by mask)",
                [dict(pkg="e3", test="TestC15Inotify", replay_test="TestReplayC15Inotify", single=True),
                 dict(pkg="winprop", test="TestC15Windows", replay_test="TestReplayC15Windows", gen="win", single=True),
                 dict(pkg="kq", test="TestC15Kqueue", replay_test="TestReplayC15Kqueue", gen="kq", single=True)],
                1, 1, exhaustive=True,
                assumptions=["the documented tables in the harness (written from the README/godoc and inotify(7)/kqueue(2)/Win32 docs) are the specification",
                             "/proc/self/fdinfo shows the mask the kernel actually holds for a mark",
                             "Windows and FEN functions are extracted from the working tree with go/parser and run on Linux; their OS behaviour is not reached"]),
    "C16": pure("exhaustive over all Op values with only the low 16 bits set x 228 probe sets for Has (every single bit, 0, all-ones, 192 fixed pseudo-random sets); "
                "String parsed back to the set for all of them; Event.String for 1024 ops x hostile names; rapid above bit 16 with arbitrary byte-string names. "
                "non-trivial = >=2 bits set (exhaustive part) or high bits with a name needing quoting (sampled part); distinct by value",
                [dict(pkg="e3", test="TestC16", replay_test="TestReplayC16")], 20000, 200000, rapid=False,
                assumptions=["operation names CREATE, WRITE, REMOVE, RENAME, CHMOD, OPEN, READ, CLOSE_WRITE, CLOSE_READ are the documented renderings"]),
    "C20": pure("exhaustive: all 132496 pairs of line sequences over {a, b, empty} up to length 5; rapid: texts up to 400 lines from a small vocabulary with block "
                "inserts/deletes/replaces and surrounding white space; DiffMatch: generated templates of literals and placeholders with conforming or minimally "
                "violating texts. Oracle: independent patch applier, header/body arithmetic, <=3 context lines; independent backtracking matcher. "
                "non-trivial = diff with >=1 hunk on texts of >8 lines / template with >=3 tokens; distinct by (lengths, hunks) or template",
                [dict(pkg="ztestprop", test="TestC20Exhaustive", replay_test="TestReplayC20", gen="ztest", single=True, checks_scale=1),
                 dict(pkg="ztestprop", test="TestC20", replay_test="TestReplayC20", gen="ztest"),
                 dict(pkg="ztestprop", test="TestC20Match", replay_test="TestReplayC20", gen="ztest")], 5000, 50000,
                assumptions=["diff.go is copied verbatim from the working tree at check time", "a DiffMatch case that straddles UTC midnight is discarded"]),
}

PBT = "property-based testing (pgregory.net/rapid) of generated histories against a reference model fed by a shadow inotify instance; ddmin-shrunk replay"
E1_NOTE = ("trusted: Linux inotify delivers the same notification sequence to two instances watching the same inodes with the same masks for a single-threaded history; "
           "notifications are queued before the originating syscall returns; the harness's 20-line record decoder and documented translation table")


def _e1(text):
    return dict(engine="E1", level_text=text, note=E1_NOTE, technique=PBT)


MANIFEST_TEXT = {
    "C01": _e1("Exploration: every event the reference model derives from the kernel's own notification stream (shadow instance) must be delivered with the right Op and Name; exact in quiescent segments, run-length rule in bursts. Search, not proof: bounded by case count; reaches batchings, name shapes and op mixes the scripted suite cannot."),
    "C02": _e1("Exploration: every delivered event must be one the model derives; Op non-empty and within the requested set. Same search space as C01 with silent-by-specification ops emphasised."),
    "C03": _e1("Exploration: delivered sequence equals the model sequence (order class reported only when the multisets agree), over buffer sizes and consumer paces."),
    "C04": _e1("Exploration: sequential reference model of the watch set (first cleaned spelling per inode, re-point on changed inode, release of the old one); WatchList compared after every step; Add error iff the kernel refuses; Remove error classes; panics caught."),
    "C08": _e1("Exploration: Name must be byte-equal to Clean(first Add argument) [+ '/' + entry name used by the harness], over spellings, symlinked arguments and entry names of every length class, decoded at varying buffer offsets."),
    "C09": _e1("Exploration: model watch lifetime (ends on IN_DELETE_SELF / IN_MOVE_SELF / IN_IGNORED / IN_UNMOUNT; Remove suppressed only if the listed parent reported the removal) compared through WatchList, Remove results, event silence and re-Add."),
    "C10": _e1("Exploration: nothing may be received on Errors for benign histories run at full speed with the reader parked at drawn points; overflow part: ErrEventOverflow and continued service."),
    "C11": _e1("Exploration: renamedFrom of every Create equals the old name the model pairs through the kernel cookie (unbounded map vs the code's 10-slot ring), empty otherwise."),
    "C12": _e1("Exploration: at quiescent points the kernel marks of the Watcher (from /proc/self/fdinfo) must equal those of the shadow instance, and table sizes must equal len(WatchList)."),
    "C15": dict(engine="E3", level_text="Exhaustive enumeration of every flag combination each backend inspects and every requestable operation set, against independently written documented tables (finite domain fully covered; kqueue/Windows/FEN functions run on Linux from extracted source).",
                note="trusted: the harness's tables (from README/godoc, inotify(7), kqueue(2), Win32 docs); /proc/self/fdinfo for the subscribed mask; go/parser extraction of the Windows/FEN functions",
                technique="exhaustive enumeration of a finite input domain against a documented table (property-based testing family, bounded-exhaustive generator)"),
    "C16": dict(engine="E3", level_text="Exhaustive over the low 16 bits x 228 probe sets, rapid-sampled above; String parsed back to the set, Event.String parsed back with strconv.Unquote.",
                note="trusted: strconv.QuotedPrefix/Unquote as inverse of %q; the documented operation names",
                technique="bounded-exhaustive + random property-based testing with inverse-function (round-trip) oracle"),
    "C20": dict(engine="E3", level_text="Exhaustive over all pairs of line sequences over a 3-letter alphabet up to length 5 plus rapid-generated long texts and templates; oracle is an independent patch applier and an independent backtracking matcher.",
                note="trusted: the harness's patch applier and template matcher; diff.go copied verbatim from the working tree at check time",
                technique="bounded-exhaustive + random property-based testing with independent patch-applier / reference-matcher oracle"),
}

E2_ASSUME = [
    "a call counts as blocked only with proof: two goroutine dumps one second apart show it in the same blocking state inside fsnotify; lateness without proof is inconclusive (exit 2), never a violation",
    "the reader goroutine is parked deterministically by the plug protocol (Events buffer filled one event at a time, FIONREAD==0 observed)",
]


def e2(test, rule, quick, thorough, **kw):
    d = dict(pkg="life", test=test, replay_test="TestReplay" + test[4:], level="exploration", rule=rule, assumptions=E2_ASSUME,
             quick=dict(checks=quick, shards=1, cap_s=900), thorough=dict(checks=thorough, shards=16, cap_s=3300),
             crash_is_violation=True, shrinktime="20s")
    d.update(kw)
    return d


PROPS["C05"] = e2("TestC05", "cases drawn by rapid: setup tree, 1-5 watches on dirs/files, reader parked by the plug (80%), 0-15 pending fs ops incl. a sequence that invalidates "
                  "a kernel watch before its notification is handled (70%), consumer behaviour in {none, events, errors, both, stop after j}, capacity in {default,0,1,8,4096}, "
                  "then 1-6 control calls and 1-3 concurrent Close calls, each under a watchdog with goroutine-dump proof. non-trivial = at the first control call the reader is "
                  "parked or FIONREAD>0; in 20% of cases the final Close calls race 3-10 goroutines looping over Add/WatchList/Remove and one more Close follows; distinct = the full case text", 300, 600)
MANIFEST_TEXT["C05"] = dict(engine="E2", level_text="Exploration of (pending state x consumer behaviour x control programme): every Add/Remove/WatchList/Close must return; a violation needs goroutine-dump proof of a call blocked inside fsnotify. The reader-parked class of schedules is reached deterministically; other interleavings are sampled.",
                            note="trusted: runtime.Stack goroutine states; the plug protocol; watchdog 4 s (quick) / 10 s (thorough) for calls that take microseconds",
                            technique="property-based testing (rapid) over generated pending states and call programmes, watchdog-with-proof oracle")

PROPS["C06"] = e2("TestC06", "cases drawn by rapid: watches on dirs/files, 0-28 fs ops delivered or left pending (reader parked by the plug in 50%), consumer in {both, none, events, errors, stop after j}, "
                  "capacity in {default,0,1,8,4096}, Close issued concurrently with 0-4 Add/Remove/WatchList/Close calls at GOMAXPROCS in {default,1,2,4,16}, then changes under fresh names. "
                  "Oracle: every call returns (watchdog with proof); afterwards Add=ErrClosed, Remove=nil, WatchList=nil; both channels reach closed (failure needs: no reader goroutine left, or reader provably blocked); "
                  "no event for a post-Close name; a panic kills the process and is reported with the journal. non-trivial = Close with the kernel queue non-empty, the reader parked, or concurrent calls; distinct = case text", 200, 800)
MANIFEST_TEXT["C06"] = dict(engine="E2", level_text="Exploration of Close points (idle, mid-burst, reader parked in a send, concurrent with other calls) x consumer behaviours x capacities; closed-ness of both channels, inert API and silence for post-Close changes are checked on every case.",
                            note="trusted: goroutine dumps for the 'reader gone, channel open' verdict; fresh post-Close names make 'no event after Close' decidable",
                            technique="property-based testing (rapid) over generated histories and Close points with protocol-invariant oracle")
PROPS["C13"] = e2("TestC13", "cases as C06 (history before Close, Close racing other calls), with NewWatcher made to fail first by an injected EMFILE (RLIMIT_NOFILE lowered in-process) in 25% of cases; "
                  "plus a soak of 300 (quick) / 3000 (thorough) create-use-close cycles with every 7th NewWatcher failing (all descriptors counted around it) and 3 (thorough 20) NewWatcher calls at the genuine per-user instance limit "
                  "(raw instances created until the kernel says EMFILE, released at once); the Watcher's descriptor must be close-on-exec; 15% of cases close during a storm of 4-12 goroutines calling the API. Oracle: the set of inotify descriptors in /proc/self/fd and the number of goroutines with "
                  "fsnotify frames return to the baseline taken before the case (bounded re-probing; failure needs a blocked goroutine or no goroutine left to release the descriptor); a failed NewWatcher returns nil and leaves both unchanged. "
                  "non-trivial = as C06 or with the injected fault; distinct = case text", 200, 800, level="fault_enumeration",
                  parts=[dict(pkg="life", test="TestC13", replay_test="TestReplayC13"), dict(pkg="life", test="TestC13Soak", replay_test="TestReplayC13", single=True)])
MANIFEST_TEXT["C13"] = dict(engine="E2", level_text="Fault enumeration: the fault (inotify_init1 failing with EMFILE) is injected at chosen NewWatcher calls, and the point of Close is enumerated over generated histories; descriptor and goroutine counts are compared with a baseline after every case and after thousands of cycles.",
                            note="trusted: /proc/self/fd readlink = anon_inode:inotify identifies inotify descriptors; runtime.Stack lists all goroutines; RLIMIT_NOFILE makes inotify_init1 fail with EMFILE (the per-user instance limit itself is machine-global and not touched)",
                            technique="property-based testing with injected fault (rlimit) and resource-baseline oracle")
PROPS["C07"] = e2("TestC07", "programmes drawn by rapid: 2-4 goroutines x 1-4 calls from {Add, Remove, WatchList, Close} over overlapping spellings (d0, ld0 -> d0, ./d0, d0/, d1, d0/f, ld0/f, u, missing), "
                  "two churn goroutines creating/removing entries inside the watched directories, GOMAXPROCS in {1,2,4,16}, consumer in {both, none, stop after j}; built with -race. "
                  "Oracle: race detector silent, no panic, no provable deadlock, and the recorded call/return history is linearizable (porcupine) w.r.t. the sequential watch-set specification; "
                  "stress part: watched paths themselves created/deleted/renamed meanwhile, WatchList never shows a duplicate or a never-added path, results within the allowed classes. "
                  "non-trivial = >=2 calls of different goroutines overlapped in real time on the same file or with Close; distinct = case text", 300, 1500, race=True, timeout="50m",
                  parts=[dict(pkg="life", test="TestC07", replay_test="TestReplayC07"), dict(pkg="life", test="TestC07Stress", replay_test="TestReplayC07", single=True),
                         dict(pkg="props", test="TestC07Reader", replay_test="TestReplay", checks_scale=0.5)])
PROPS["C07"]["rule"] += ("; plus a reader-interleaving part on the shadow-inotify engine: Add/Remove issued at harness-chosen points of the reader goroutine's progress through a burst (parked in a send with the rest unread, "
                         "after j receives, between the records that end a watch), mixed with deletion, re-creation and re-adding of the watched paths; call results and WatchList at every quiescent point must be those of the "
                         "sequential model applied to the calls in their order (a Remove racing a filesystem-ended watch may also return nil or EINVAL)")
MANIFEST_TEXT["C07"] = dict(engine="E2", level_text="Exploration: schedules are sampled (Go scheduler, varied GOMAXPROCS, lock contention from event traffic), not enumerated; each sampled history is checked exhaustively for linearizability and the race detector watches every run. A third part owns the position of the reader goroutine (parked in a send, advanced by j receives, between the records that end a watch) and issues Add/Remove there; results and WatchList are compared with the sequential model.",
                            note="trusted: Go race detector; porcupine v1.3.0 linearizability checker; invoke/return stamps from one atomic counter; the filesystem objects named by the calls are static during the concurrent phase",
                            technique="property-based testing of concurrent programmes under -race with linearizability checking (porcupine) against the sequential model")

PROPS["C14"] = e1("TestC14", GEN_RULE + "C14: Events capacity from {default,0,1,2,4,...,65536}; up to 7 other Watchers created with drawn capacities and given random Add/Remove/Close on the same directories during the history; "
                  "absorb segments (buffered channel, nobody receiving, then exactly the expected events must be in the channel). non-trivial = >=1 other Watcher present and >=3 events delivered")
MANIFEST_TEXT["C14"] = _e1("Exploration: cap(Events) must equal the request; the delivered sequence must equal the model sequence (which depends on neither the capacity nor other Watchers) for every capacity and any activity of up to 7 co-resident Watchers; absorb segments check that a buffered Watcher stores events with no consumer present.")
PROPS["C19"] = e1("TestC19", "cases drawn by rapid (GenC19): three candidate roots r1, r10, q with initial trees whose names share prefixes (sub/sub2, a/ab, dir1/dir10, x/x-y), 1-3 of them added recursively; "
                  "4-30 ops: mkdir one level (followed by sync), rename of an inner directory within its tree (followed by sync; in 35% of cases inside bursts instead, a third of those twice in a row on the same directory), rmdir, file create/write/chmod/unlink/move at any depth in bursts (25% plugged), "
                  "Remove of one of several roots, a root removed and added again with events of its tree pending; 15% of cases are long (30-70 ops) and move-heavy. "
                  "Oracle: shadow watch on every covered directory + the harness's own true-path bookkeeping. non-trivial = an inner directory rename or a root removal happened and >=2 events were delivered; distinct = skeleton")
MANIFEST_TEXT["C19"] = _e1("Exploration of the unreleased recursive mode (enabled through the verif hook): expected Name = root spelling + true current relative path, kept by the harness through renames; coverage of new directories from their Create on; Remove(root) silences exactly that tree. mkdir -p bursts, cross-boundary moves and root renames are excluded as in the property.")


E4_ASSUME = [
    "the kqueue backend is the working-tree source compiled on Linux against a simulated kqueue/syscall layer (harness/kq/unix); behaviour of a real BSD kernel is not reached",
    "the notifying filesystem layer raises NOTE_* as FreeBSD's vop_*_post hooks do; it is validated on every run by replaying the repository's testdata scripts against their recorded freebsd/kqueue expectations (count in traces_validated_against_impl)",
    "hard links are left out (NOTE_LINK vs NOTE_DELETE on a multiply linked vnode differs across BSDs); FIFOs and symlinks get names of their own (a name changing kind from directory to FIFO makes the backend block in open(2))",
    "quiescence is exact: the simulator knows when the reader sleeps in kevent() with nothing active; bursts are built by holding delivery",
]


def e4(test, rule, quick, thorough):
    return dict(pkg="kq", test=test, replay_test="TestReplayK", gen="kq", level="exploration", rule=rule, assumptions=E4_ASSUME,
                quick=dict(checks=quick, shards=1, cap_s=900), thorough=dict(checks=thorough, shards=16, cap_s=3300),
                crash_is_violation=True, vlimit_kb=8 * 1024 * 1024, min_evaluations=dict(quick=quick, thorough=thorough * 16))


KQ_RULE = ("cases drawn by rapid (GenK): watched directories d0 (spelled d0, ./d0/ or through the symlink ld0) and d1 with 0-6 pre-existing entries (15%: an entry of d1 is added by the user before d1 itself; 25%: a subdirectory of d0 is added as well), "
           "3-25 ops from create/write/chmod (files, and the watched directories themselves)/truncate/unlink (20%: the name re-created at once as file or directory)/"
           "mkdir/rmdir/rename (plain, overwrite, in, out, between watched dirs)/rm -r/rename or removal of a whole watched directory/Add/Remove/remove-change-add again, 30% of segments as held bursts of 2-8 ops, ending in remove-all and/or Close; "
           "every API call runs under a watchdog: a call blocked for good, a backend that never finishes handling what was raised, or a reader that sleeps in kevent() for ever after Close is a finding with goroutine-dump proof; ")
PROPS["C17"] = e4("TestC17", KQ_RULE + "C17 adds FIFOs and symlinks (to a file, to a directory) as directory contents. Oracle at every quiescent point: descriptors opened and not closed through the simulated syscall layer == descriptors in the watch table; "
                  "no internal watch whose directory is no longer watched; WatchList within the user's paths; after remove-all: no vnode descriptor, no knote, all tables empty; after Close and reader exit: no descriptor at all. "
                  "non-trivial = >=1 Add and >=1 watch-ending filesystem op; distinct = case text", 1000, 3000)
MANIFEST_TEXT["C17"] = dict(engine="E4", level_text="Exploration relative to the simulator: every descriptor opened through the simulated open(2) is tracked until close(2); tables and descriptors are compared after every quiescent point, after remove-all and after Close.",
                            note="trusted: the simulated kqueue (knotes per (kq, ident, filter), EV_CLEAR accumulation, FIFO activation order, knote removal on close, EVFILT_READ on the close pipe) and the NOTE_* raising layer, validated against the recorded kqueue expectations of the repository's 39 applicable testdata scripts",
                            technique="property-based testing (rapid) of the kqueue backend on a simulated kernel with resource-accounting oracle")
PROPS["C18"] = e4("TestC18", KQ_RULE + "Oracle: quiescent segments - per-op specification table (create->Create, write->Write, chmod/truncate->Chmod, unlink/rmdir->Remove, rename->Rename old + Create new (+ Remove of an overwritten entry), "
                  "rm -r of a watched dir -> Remove for it and each watched entry, unwatched places -> nothing), names under the user's spelling; held bursts - exactly one Create per entry that is new (or has a new inode) at the next quiescent point, none otherwise; "
                  "whole history - per name, Create only after Remove/Rename; nothing on Errors; the 39 testdata scripts reproduce their recorded expectations. non-trivial = >=5 events delivered; distinct = case text", 1000, 3000)
MANIFEST_TEXT["C18"] = dict(engine="E4", level_text="Exploration relative to the simulator: exact per-operation event table in quiescent mode, Create-count and alternation invariants in bursts, plus reproduction of the repository's recorded kqueue expectations on every run.",
                            note="trusted: as C17; the specification table in harness/kq/hist_test.go is written from the property statement and the recorded expectations",
                            technique="property-based testing (rapid) of the kqueue backend on a simulated kernel with per-operation specification-table oracle")


# additional deterministic / structured parts of the E1 checks
def _parts(pid, *extra):
    PROPS[pid]["parts"] = [dict(pkg="props", test=PROPS[pid]["test"])] + list(extra)


_parts("C01", dict(pkg="props", test="TestC01Sweep", checks_scale=0.5), dict(pkg="props", test="TestC01Big", single=True),
       dict(pkg="props", test="TestC01FullBuffer", single=True), dict(pkg="props", test="TestC01FullBufferNamed", single=True), dict(pkg="props", test="TestC01Overflow", single=True),
       dict(pkg="props", test="TestC01Ring", single=True))
PROPS["C01"]["rule"] += ("; plus a name-length sweep (entries of drawn lengths 1..255 incl. every 16k-1/16k/16k+1, multi-byte and non-UTF-8 units, created/written/removed inside plugged bursts so that each is decoded at a "
                         "different buffer offset) and bursts of 600 (quick) / 2000 (thorough) operations handled in a few reads; a burst of 8892 name-less 16-byte records (two watched files) that fills the 64 KiB read buffer exactly, twice; a burst of 4196 creations whose 32-byte records fill it exactly (2048 per read), run twice with the boundary shifted by 16 bytes; "
                         "and an overflow burst after which six more changes are queued behind the overflow marker: all of those must be delivered and ErrEventOverflow announced")
_parts("C08", dict(pkg="props", test="TestC08Sweep", checks_scale=0.5), dict(pkg="props", test="TestC08FullBufferNamed", single=True))
PROPS["C08"]["rule"] += "; plus the name-length sweep of C01 with the Add argument drawn from 8 spellings (relative, ./, trailing slashes, absolute, through a symlink, ../r/d0); and the burst of 4196 creations whose named records fill the read buffer exactly"
_parts("C10", dict(pkg="props", test="TestC10Overflow", single=True), dict(pkg="props", test="TestC10Sweep", checks_scale=0.25))
PROPS["C10"]["rule"] += ("; plus overflow bursts (reader parked, max_queued_events + delta alternating attribute changes, delta from the seed; 1 burst quick / 10 thorough): ErrEventOverflow must arrive on Errors and nothing else (at most three values per burst), and a second burst on the same Watcher must be announced again, "
                         "then the exact oracle applies again to new operations and Add/Remove of a fresh directory must work; plus the name-length sweep of C01 (entry names of 1..255 bytes incl. every 16k-1/16k/16k+1, 239..255, "
                         "multi-byte and non-UTF-8 units): nothing may appear on Errors")
_parts("C11", dict(pkg="props", test="TestC11Threads", checks_scale=0.25), dict(pkg="props", test="TestC11Ring", single=True), dict(pkg="props", test="TestC11Straddle", single=True))
_parts("C14", dict(pkg="props", test="TestC14Straddle", single=True))
PROPS["C14"]["rule"] += "; plus three bursts of ~2047 creations followed by a move between two watched directories whose two notifications fall into different reads of the unbuffered Watcher (the Create must name the old name as it does for a buffered one)"
PROPS["C11"]["rule"] += ("; plus threaded mode: 2-8 goroutines each moving its own uniquely named file 3-25 times between two watched directories and an unwatched one; every Create is paired by name with the move that produced it "
                         "(old name iff the source was covered); and ring cases: 9..30 unmatched moves out, then moves in from outside / between watched directories, quiescent and plugged; and moves whose two notifications fall into different 64 KiB reads")
_parts("C04", dict(pkg="props", test="TestC04Exhaustive", enumerated=True))
PROPS["C04"]["rule"] += ("; plus bounded-exhaustive enumeration: all sequences up to length 2 (quick) / 3 (thorough, split over the shards) over an alphabet of 28 symbols (Add and Remove of file, dir, symlink to each, hard link, second file, "
                         "missing path, path through a file, symlink loop, 300-byte name; 8 filesystem mutations), WatchList after every step, spelling chosen per occurrence from 7 forms, final probe for duplicate events")
_parts("C19", dict(pkg="props", test="TestC19RenameRace", single=True))
PROPS["C19"]["rule"] += ("; plus a rename race: four goroutines create uniquely named files inside a covered directory while it is renamed back and forth 1500 (quick) / 12000 (thorough) times; "
                         "every file must be reported by exactly one Create carrying its base name (the path is not judged there: it depends on how far the reader has got)")
_parts("C12", dict(pkg="props", test="TestC12Soak", single=True))
PROPS["C12"]["rule"] += "; plus a soak of 150 (quick) / 2000 (thorough) add/hard-link/delete/recreate/re-add/remove cycles on one Watcher (every fifth: the path stays listed while it is replaced and re-added three times in a row) with the kernel-mark comparison after every cycle"


# coverage-guided native fuzzing, thorough tier only (Go's fuzzer cannot be seeded; failing inputs are saved)
PROPS["C20"]["parts"] += [dict(pkg="ztestprop", fuzz="FuzzC20Diff", test="FuzzC20Diff", replay_test="TestReplayC20", gen="ztest", single=True, tiers=["thorough"], fuzztime="60s"),
                          dict(pkg="ztestprop", fuzz="FuzzC20Match", test="FuzzC20Match", replay_test="TestReplayC20", gen="ztest", single=True, tiers=["thorough"], fuzztime="60s")]
PROPS["C20"]["rule"] += "; thorough tier adds 2 x 60 s of Go native coverage-guided fuzzing of the same generators/oracles through rapid.MakeFuzz"
PROPS["C16"]["parts"] += [dict(pkg="e3", fuzz="FuzzC16", test="FuzzC16", replay_test="TestReplayC16", single=True, tiers=["thorough"], fuzztime="60s")]
PROPS["C16"]["rule"] += "; thorough tier adds 60 s of Go native coverage-guided fuzzing over (op, probe, name, old name)"

_parts("C02", dict(pkg="props", test="TestC02Umount", checks_scale=0.15))
PROPS["C02"]["rule"] += ("; plus unmount cases (a tmpfs mounted on a directory, the mount point and entries inside watched, activity, umount - possibly with the reader parked): IN_UNMOUNT/IN_IGNORED must not surface, "
                         "the watches end, nothing is reported for the directory underneath, re-Add works, kernel marks match the model; the part is skipped and reported as skipped where mount(2) is not permitted")
