"""Per-property configuration of ./check (case budgets, packages, evidence text)."""

E1_ASSUME = [
    "two inotify instances with marks on the same inodes and the same masks receive the same notification sequence for a single-threaded history (shadow instance = ground truth of what the kernel reported)",
    "notifications (incl. IN_DELETE_SELF/IN_IGNORED of the final iput) are queued before the originating syscall returns",
    "shadow watch descriptors are not reused within a case (the kernel allocates them cyclically)",
    "the kernel merges only adjacent identical notifications (run-length rule in burst segments)",
    "one inotify queue is FIFO and fsnotify has one reader, so everything queued before the sentinel is handled before the sentinel is delivered",
]


def e1(test, rule, quick=400, thorough=3000, **kw):
    d = dict(pkg="props", test=test, level="exploration", rule=rule, assumptions=E1_ASSUME,
             quick=dict(checks=quick, shards=1, cap_s=900), thorough=dict(checks=thorough, shards=16, cap_s=3300),
             crash_is_violation=True, vlimit_kb=8 * 1024 * 1024)
    d.update(kw)
    return d


GEN_RULE = ("cases are drawn by rapid from the shared history generator (fs-op histories over 3-4 directories and a pool of 3-6 generated "
            "entry names, Add/Remove/WatchList at quiescent points, segments run quiescent / plugged burst / free-running burst, "
            "Events capacity drawn per case); distinct = hash of the skeleton (capacity + step kinds + directory of each path + success/failure of each step); ")

PROPS = {
    "C01": e1("TestC01", GEN_RULE + "non-trivial = >=4 events expected and at least one of: a plugged burst with >=2 notifications in one read, an entry name within 1 of a multiple of 16 bytes, a file-and-parent double report, a hard-link/held-descriptor/overwrite op that produced notifications"),
    "C02": e1("TestC02", GEN_RULE + "non-trivial = >=3 delivered events and >=1 op that is silent by specification (unwatched place, after Remove, housekeeping notification)"),
    "C03": e1("TestC03", GEN_RULE + "non-trivial = >=2 watches delivered events, >=6 events, and a rename pair or a name with two incarnations"),
    "C04": e1("TestC04", GEN_RULE + "non-trivial = a successful Add and one of: alias Add, failed Add after a successful one, Remove of unlisted path, re-Add after an fs mutation"),
    "C08": e1("TestC08", GEN_RULE + "non-trivial = unclean/relative/symlinked Add spelling and an entry name that is multi-byte or within 1 of a padding boundary decoded at offset > 0"),
    "C09": e1("TestC09", GEN_RULE + "non-trivial = a listed watch ended by a filesystem op (not Remove) followed by >=2 further ops"),
    "C10": e1("TestC10", GEN_RULE + "non-trivial = a step removed a kernel watch while >=1 notification for it was still unread (plugged)"),
    "C11": e1("TestC11", GEN_RULE + "non-trivial = an unmatched move-out before a matched move, or >10 moves"),
    "C12": e1("TestC12", GEN_RULE + "non-trivial = a re-Add of a listed path naming a new inode while the old one is alive, or >=3 add/remove cycles"),
}
