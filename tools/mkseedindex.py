#!/usr/bin/env python3
"""Regenerates seeded/INDEX.md from the meta.json files and seeded/MATRIX.txt (output of tools/seedmatrix.sh)."""
import glob, json, os, re
V = "/verif/seeded"
matrix = {}
mp = os.path.join(V, "MATRIX.txt")
if os.path.exists(mp):
    for l in open(mp):
        m = re.match(r"(\S+) (\S+): (.*)", l.strip())
        if m:
            res = "; ".join(re.sub(r"^== ", "", x).strip() for x in m.group(3).split("==") if x.strip())
            matrix.setdefault(m.group(1), []).append((m.group(2), res))
out = ["# Seeded changes", "",
       "Each directory holds patch.diff (or patchA/B/C.diff), the demonstration, and meta.json (what it breaks, what it needs to manifest, "
       "what was run). All were written by sub-agents that saw only the property text and a scratch worktree; all were confirmed (demo fails "
       "with / passes without the change; 141/141 baseline tests pass with it) before being kept (kqueue and Windows changes cannot run here: "
       "compiled for their systems, traced by hand). \"at confirmation\" = what the quick tier of the named checks said when the change was "
       "first evaluated (before any strengthening it prompted); \"now\" = the last full run of tools/seedmatrix.sh (MATRIX.txt) with the "
       "check(s) of the property the change breaks.", "",
       "| id | change | at confirmation | now |", "|---|---|---|---|"]
for d in sorted(glob.glob(V + "/*/")):
    i = os.path.basename(d.rstrip("/"))
    try:
        m = json.load(open(d + "meta.json"))
    except Exception:
        continue
    summ = m.get("summary") or "; ".join("%s: %s" % (k, v.get("summary", "")) for k, v in m.items() if isinstance(v, dict) and "summary" in v)
    runs = m.get("framework_checks_run") or m.get("checks") or ""
    if isinstance(runs, dict):
        runs = "; ".join("%s: %s" % kv for kv in runs.items())
    if isinstance(runs, list):
        runs = "; ".join(re.sub(r"^== ", "", str(x)) for x in runs)
    now = "; ".join(("%s: %s" % (p, r) if len(matrix.get(i, [])) > 1 else r) for p, r in matrix.get(i, []))
    cell = lambda s: str(s).replace("|", "\\|").replace("\n", " ")
    out.append("| %s | %s | %s | %s |" % (i, cell(summ)[:420], cell(runs)[:300], cell(now)[:300]))
open(os.path.join(V, "INDEX.md"), "w").write("\n".join(out) + "\n")
print(len(out) - 10, "entries")
