#!/bin/bash
# usage: tools/runall.sh <tier> <seed> [jobs]  -- runs every check, prints exit codes and times
TIER=${1:-quick}; SEED=${2:-1}; JOBS=${3:-20}
cd "$(dirname "$0")/.."
OUT=/tmp/runall.$TIER.$SEED; rm -rf $OUT; mkdir -p $OUT
ids=$(python3 -c "import json;print(' '.join(c['property_id'] for c in json.load(open('MANIFEST.json'))['checks']))")
printf '%s\n' $ids | xargs -P $JOBS -I{} sh -c "s=\$(date +%s); VERIF_SEED=$SEED ./check {} --tier $TIER > $OUT/{}.log 2>&1; echo \"{} exit=\$? \$((\$(date +%s)-s))s\" > $OUT/{}.res"
cat $OUT/*.res | sort
