#!/usr/bin/env python3
"""Regenerates MANIFEST.json from checks_cfg.py (single source of truth)."""
import json, os, subprocess, sys
V = os.path.dirname(os.path.dirname(os.path.abspath(__file__)))
sys.path.insert(0, V)
from checks_cfg import PROPS, MANIFEST_TEXT  # noqa

props = [json.loads(l) for l in open(os.path.join(V, "properties.jsonl"))]
hooks = subprocess.run(["git", "-C", "/repo", "log", "--format=%h %s"], stdout=subprocess.PIPE, text=True).stdout.splitlines()
hook_commits = [l.split()[0] for l in hooks if l.split(None, 1)[1].startswith("verif:")]
checks, na = [], []
for p in props:
    pid = p["id"]
    if pid in PROPS and pid in MANIFEST_TEXT:
        c, t = PROPS[pid], MANIFEST_TEXT[pid]
        checks.append(dict(
            property_id=pid,
            quick_cmd="./check %s --tier quick" % pid,
            thorough_cmd="./check %s --tier thorough" % pid,
            evidence_file="/verif/evidence/%s.json" % pid,
            replay_cmd_template="./check %s --replay {path}" % pid,
            engine=t["engine"],
            level_claimed=dict(category=c["level"], text=t["level_text"], design_ref="DESIGN.md §4 " + pid),
            level_note=t["note"],
            technique=t["technique"],
        ))
    else:
        na.append(dict(property_id=pid, reason=MANIFEST_TEXT.get("_na", {}).get(pid, "check not yet built in this session; the property is in scope of the technique and will be claimed when its engine is committed")))
m = dict(
    version=1,
    setup_cmd="./setup.sh",
    hooks=dict(guard="verif", enable="go build tag `verif` (go test -c -tags verif in /verif/harness, whose go.mod replaces github.com/fsnotify/fsnotify => /repo)",
               baseline_off_cmd="cd /repo && go test -mod=mod -json -vet=off -count=1 -timeout 25m ./...",
               source_commits=hook_commits, add_only=True),
    engines=[
        dict(name="E1", path="harness/engine + harness/props", serves_properties=["C01", "C02", "C03", "C04", "C08", "C09", "C10", "C11", "C12", "C14", "C19"],
             kind_free_text="property-based testing: rapid-generated filesystem/API histories executed against the real inotify backend; oracle = reference model fed by a second raw inotify instance on the same inodes; schedule of the reader goroutine owned through sentinel/plug/FIONREAD; ddmin shrinking to replay files"),
        dict(name="E2", path="harness/life", serves_properties=["C05", "C06", "C07", "C13"],
             kind_free_text="property-based testing of lifecycle/concurrency: generated states (reader parked, events/error pending) x control-call programmes; watchdog with goroutine-dump proof, descriptor/goroutine probes, -race, linearizability check (porcupine)"),
        dict(name="E3", path="harness/e3 + harness/winprop + harness/ztestprop + harness/gen", serves_properties=["C15", "C16", "C20"],
             kind_free_text="exhaustive enumeration of finite domains + rapid for the unbounded rest, against independently written tables / inverse functions / patch applier"),
        dict(name="E4", path="harness/kq", serves_properties=["C17", "C18", "C15"],
             kind_free_text="the unmodified kqueue backend compiled on Linux against a simulated kqueue/syscall layer driven by real filesystem operations; simulator validated against the repository's recorded kqueue expectations"),
    ],
    checks=checks, not_applicable=na,
    notes="All checks: ./check <ID> --tier quick|thorough; exit 0 held / 1 VIOLATION line / 2 inconclusive. See DESIGN.md.",
)
json.dump(m, open(os.path.join(V, "MANIFEST.json"), "w"), indent=1)
print("checks:", [c["property_id"] for c in checks], "not_applicable:", [n["property_id"] for n in na])
