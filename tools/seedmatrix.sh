#!/bin/bash
# Runs, for every seeded change under /verif/seeded, the quick check of the property it breaks
# (isolated scratch copy, see tools/tryseed.sh). Output: one line per patch.
cd /verif
for d in seeded/*/; do
  id=$(basename $d); prop=${id%%-*}
  for p in $d/patch*.diff; do
    checks=$prop
    case "$id:$(basename $p)" in
      C15:patchB.diff) checks="C15 C18";;
      C09-2a:*) checks="C15";;
      C12-2b:*) checks="C01 C12";;
      C07-2a:*) checks="C05 C06";;
      C06-2a:*|C13-2b:*) checks="$prop C05 C06";;
    esac
    res=$(tools/tryseed.sh $p $checks 2>&1 | tr '\n' ' ')
    echo "$id $(basename $p): $res"
  done
done
