#!/bin/bash
# Runs, for every seeded change under /verif/seeded, the quick check of the property it breaks
# (isolated scratch copies, see tools/tryseed.sh; JOBS at a time). Output: one line per patch.
# usage: tools/seedmatrix.sh [id-prefix]      e.g. tools/seedmatrix.sh C11
cd /verif
JOBS=${JOBS:-4}
for d in seeded/${1:-}*/; do
  id=$(basename $d); prop=${id%%-*}
  for p in $d/patch*.diff; do
    checks=$prop
    case "$id:$(basename $p)" in
      C15:patchB.diff) checks="C15 C18";;
      C09-2a:*) checks="C15";;
      C12-2b:*) checks="C01 C12";;
      C07-2a:*) checks="C05 C06";;
      C06-2a:*|C13-2b:*) checks="$prop C05 C06";;
      C02-3a:*|C08-3b:*) checks="C11 C19";;   # cookie-ring slips: old names (C11), recursive paths (C19)
      C10-3b:*) checks="C05";;                # control calls block while the overflow error waits
      C03-3b:*) checks="C03 C19";;            # mkdir -p under a recursive watch: outside every quantifier
    esac
    echo "$id $p $checks"
  done
done | xargs -P $JOBS --process-slot-var=SLOT -L 1 bash -c 'id=$0; p=$1; shift; res=$(TRYSEED_SCRATCH=/tmp/tsm-$SLOT tools/tryseed.sh $p "$@" 2>&1 | sort | tr "\n" " "); echo "$id $(basename $p): $res"'
for s in $(seq 0 $((JOBS-1))); do
  [ -d /tmp/tsm-$s/repo ] && git -C /repo worktree remove --force /tmp/tsm-$s/repo 2>/dev/null
  rm -rf /tmp/tsm-$s
done
git -C /repo worktree prune
