#!/bin/sh
# Runs the repository's pinned suite (guard off) and compares with BASELINE.json's stable_pass list.
cd /repo || exit 2
export GOFLAGS=-mod=mod GOPROXY=off GOSUMDB=off GOTOOLCHAIN=local
go test -json -vet=off -count=1 -timeout 25m ./... > /tmp/baseline.$$.json 2>/dev/null
python3 - /tmp/baseline.$$.json <<'PY'
import json,sys
base=json.load(open('/root/.vp/BASELINE.json'))
want=set(base['stable_pass'])
res={}
for l in open(sys.argv[1]):
    try: e=json.loads(l)
    except Exception: continue
    if e.get('Test') and e.get('Action') in('pass','fail','skip'):
        res[e['Package']+'::'+e['Test']]=e['Action']
bad=[t for t in sorted(want) if res.get(t)!='pass']
print("baseline tests passing: %d/%d"%(len(want)-len(bad),len(want)))
for t in bad: print("  NOT PASSING:",t,res.get(t))
sys.exit(1 if bad else 0)
PY
rc=$?
rm -f /tmp/baseline.$$.json
git -C /repo status --short
exit $rc
