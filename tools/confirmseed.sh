#!/bin/sh
# usage: tools/confirmseed.sh <ID> [race]  -- confirms a sub-agent's seeded change in its scratch worktree /tmp/wt/<ID>
# and copies it to /verif/seeded/<ID>/ with what was run.
ID=$1; RACE=$2
W=/tmp/wt/$ID
export GOFLAGS=-mod=mod GOPROXY=off GOSUMDB=off GOTOOLCHAIN=local
cd $W || exit 2
[ -f SEEDED/patch.diff ] || { echo "no SEEDED/patch.diff"; exit 2; }
mkdir -p /tmp/wt/hold.$ID; 
# start from a clean tree + demo
git checkout -q -- . ; rm -rf SEEDED.keep; mv SEEDED /tmp/wt/hold.$ID/SEEDED
cp /tmp/wt/hold.$ID/SEEDED/seeded_demo_test.go ./seeded_demo_test.go
RF=""; [ -n "$RACE" ] && RF="-race"
echo "--- demo WITHOUT the change (must pass)"
go test $RF -vet=off -count=1 -run 'TestSeededDemo' . > /tmp/wt/hold.$ID/demo_clean.log 2>&1; A=$?; tail -2 /tmp/wt/hold.$ID/demo_clean.log
git apply /tmp/wt/hold.$ID/SEEDED/patch.diff || { echo "patch does not apply"; exit 2; }
echo "--- demo WITH the change (must fail)"
go test $RF -vet=off -count=1 -run 'TestSeededDemo' . > /tmp/wt/hold.$ID/demo_patched.log 2>&1; B=$?; tail -3 /tmp/wt/hold.$ID/demo_patched.log
echo "--- pinned suite WITH the change (guard off, demo moved aside)"
mv seeded_demo_test.go /tmp/wt/hold.$ID/
go test -json -vet=off -count=1 -timeout 25m ./... > /tmp/wt/hold.$ID/suite.json 2>/dev/null
python3 - /tmp/wt/hold.$ID/suite.json <<'PY' > /tmp/wt/hold.$ID/suite.txt
import json,sys
base=json.load(open('/root/.vp/BASELINE.json')); want=set(base['stable_pass']); res={}
for l in open(sys.argv[1]):
    try: e=json.loads(l)
    except Exception: continue
    if e.get('Test') and e.get('Action') in('pass','fail','skip'): res[e['Package']+'::'+e['Test']]=e['Action']
bad=[t for t in sorted(want) if res.get(t)!='pass']
print("baseline tests passing with the change: %d/%d"%(len(want)-len(bad),len(want)))
for t in bad: print("  NOT PASSING:",t,res.get(t))
PY
cat /tmp/wt/hold.$ID/suite.txt
git checkout -q -- .
echo "demo clean exit=$A patched exit=$B"
D=/verif/seeded/$ID; mkdir -p $D
cp /tmp/wt/hold.$ID/SEEDED/patch.diff /tmp/wt/hold.$ID/SEEDED/seeded_demo_test.go $D/
python3 - $ID $A $B "$RACE" <<'PY'
import json,sys
ID,A,B,RACE=sys.argv[1],int(sys.argv[2]),int(sys.argv[3]),sys.argv[4]
m=json.load(open('/tmp/wt/hold.%s/SEEDED/meta.json'%ID))
suite=open('/tmp/wt/hold.%s/suite.txt'%ID).read().strip()
m['confirmed_by_framework_author']=dict(
  demo_without_change_exit=A, demo_with_change_exit=B, demo_flags=('-race' if RACE else ''),
  suite_with_change=suite, where='scratch worktree /tmp/wt/%s (removed afterwards)'%ID,
  commands=['go test %s-vet=off -count=1 -run TestSeededDemo . (clean tree, then with patch.diff applied)'%('-race ' if RACE else ''), 'go test -json -vet=off -count=1 ./... compared with /root/.vp/BASELINE.json stable_pass'])
json.dump(m,open('/verif/seeded/%s/meta.json'%ID,'w'),indent=1)
PY
rm -rf /tmp/wt/hold.$ID
