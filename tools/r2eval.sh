#!/bin/bash
# usage: tools/r2eval.sh <ID> <check> [<check>...]
# Confirms the two round-2 seeded changes of property <ID> in their scratch worktree /tmp/wt/R2<ID>
# (demo passes clean / fails patched, pinned suite passes patched), runs the given quick checks against
# each (tools/tryseed.sh, isolated scratch copy), and stores them as /verif/seeded/<ID>-2a and -2b.
ID=$1; shift
R=${ROUND:-2}
W=/tmp/wt/R$R$ID
export GOFLAGS=-mod=mod GOPROXY=off GOSUMDB=off GOTOOLCHAIN=local
cd $W || exit 2
[ -f SEEDED/patchA.diff ] || { echo "no SEEDED/patchA.diff in $W"; exit 2; }
H=/tmp/wt/hold.R$R$ID; rm -rf $H; mkdir -p $H; cp -r SEEDED $H/
git checkout -q -- . ; rm -rf SEEDED seeded_demo_test.go
DD=${DEMO_DIR:-.}   # package directory of the demonstration (internal/ztest for C20)
rm -f $DD/seeded_demo_test.go
cp $H/SEEDED/seeded_demo_test.go $DD/
go test -vet=off -count=1 -run 'TestSeededDemo' ./$DD > $H/demo_clean.log 2>&1; CLEAN=$?
echo "demo on clean tree exit=$CLEAN ($(tail -1 $H/demo_clean.log))"
for X in A B; do
  x=$(echo $X | tr AB ab)
  git apply $H/SEEDED/patch$X.diff || { echo "patch$X does not apply"; continue; }
  go test -vet=off -count=1 -run "TestSeededDemo$X\$" ./$DD > $H/demo_$X.log 2>&1; DX=$?
  go test -json -vet=off -count=1 -timeout 20m -skip 'TestSeededDemo' ./... > $H/suite_$X.json 2>/dev/null
  python3 - $H/suite_$X.json <<'PY' > $H/suite_$X.txt
import json,sys
base=json.load(open('/root/.vp/BASELINE.json')); want=set(base['stable_pass']); res={}
for l in open(sys.argv[1]):
    try: e=json.loads(l)
    except Exception: continue
    if e.get('Test') and e.get('Action') in('pass','fail','skip'): res[e['Package']+'::'+e['Test']]=e['Action']
bad=[t for t in sorted(want) if res.get(t)!='pass']
print("baseline tests passing with the change: %d/%d %s"%(len(want)-len(bad),len(want)," ".join(bad)))
PY
  git checkout -q -- .
  echo "patch$X: demo exit=$DX; $(cat $H/suite_$X.txt)"
  TRYSEED_SCRATCH=${TRYSEED_SCRATCH:-/tmp/ts-$ID} /verif/tools/tryseed.sh $H/SEEDED/patch$X.diff "$@" > $H/checks_$X.txt 2>&1
  sort $H/checks_$X.txt
  D=/verif/seeded/$ID-$R$x; mkdir -p $D
  cp $H/SEEDED/patch$X.diff $D/patch.diff; cp $H/SEEDED/seeded_demo_test.go $D/
  python3 - $ID $X $CLEAN $DX $H $D $R <<'PY'
import json,sys
ID,X,CLEAN,DX,H,D,R=sys.argv[1:8]
m=json.load(open(H+'/SEEDED/meta.json'))
me=dict(property=ID, seeded_id=ID+'-'+R+X.lower(), round=int(R))
me.update(m.get('patch'+X, {}))
me['how_verified_by_author_of_change']=m.get('how_verified')
me['confirmed_by_framework_author']=dict(demo_function='TestSeededDemo'+X, demo_on_clean_tree_exit=int(CLEAN), demo_with_change_exit=int(DX),
   suite_with_change=open(H+'/suite_%s.txt'%X).read().strip(), where='scratch worktree /tmp/wt/R%s%s (removed afterwards)'%(R,ID))
me['framework_checks_run']=[l.strip() for l in open(H+'/checks_%s.txt'%X) if l.startswith('==')]
json.dump(me,open(D+'/meta.json','w'),indent=1)
PY
done
