#!/bin/bash
# usage: tools/tryseed.sh <patch.diff> <ID> [<ID>...]
# Applies the patch to a scratch worktree of /repo (never to /repo itself), runs the quick tier of the
# given checks against it through a scratch copy of the harness, prints exit codes, and reverts.
P=$(readlink -f "$1"); shift
S=${TRYSEED_SCRATCH:-/tmp/ts}
mkdir -p $S/out
if [ ! -d $S/repo ]; then git -C /repo worktree add -q --detach $S/repo HEAD || exit 2; fi
git -C $S/repo checkout -q -- . && git -C $S/repo checkout -q --detach "$(git -C /repo rev-parse HEAD)" || exit 2
rsync -a --delete /verif/harness/ $S/harness/
sed -i "s#=> /repo#=> $S/repo#" $S/harness/go.mod
git -C $S/repo apply "$P" || { echo "patch does not apply"; exit 2; }
cd /verif
pids=()
for id in "$@"; do
  ( VERIF_REPO=$S/repo VERIF_HARNESS_DIR=$S/harness VERIF_OUT_DIR=$S/out ./check "$id" --tier quick >$S/out/$id.log 2>&1; rc=$?
    echo "== $id exit=$rc $(grep -aE "^VIOLATION" $S/out/$id.log | head -1 | sed 's#replay=.*/##')" ) &
done
wait
git -C $S/repo checkout -q -- .
