#!/bin/sh
# usage: tools/tryseed.sh <patch.diff> <ID> [<ID>...]   -- applies the patch to /repo, runs the quick checks, reverts.
P=$1; shift
cd /repo || exit 2
git status --porcelain | grep -q . && { echo "/repo not clean"; exit 2; }
git apply "$P" || { echo "patch does not apply"; exit 2; }
cd /verif
for id in "$@"; do
  ./check "$id" --tier quick >/tmp/tryseed.$id.log 2>&1; rc=$?
  echo "== $id exit=$rc $(grep -E '^VIOLATION' /tmp/tryseed.$id.log | head -1)"
done
git -C /repo checkout -- . ; git -C /repo status --short
