#!/usr/bin/env python3
"""Sensitivity campaign: single-point syntactic mutants of the inotify backend on a scratch copy.

  tools/mutcampaign.py --scratch /tmp/mh --n 150 --seed 1 [--files backend_inotify.go,shared.go,fsnotify.go]

For each sampled mutant: build; run the pinned root-package suite (a mutant the existing tests already
kill is not interesting); otherwise run the quick tier of the inotify-side checks against it and record
which checks report a VIOLATION. Results: <scratch>/results.jsonl, summary printed at the end.
Nothing under /repo or /verif is modified.
"""
import argparse, json, os, random, shutil, subprocess, sys, time

ENV = dict(os.environ, GOFLAGS="-mod=mod", GOPROXY="off", GOSUMDB="off", GOTOOLCHAIN="local")
CHECKS = ["C01", "C02", "C03", "C04", "C05", "C06", "C07", "C08", "C09", "C10", "C11", "C12", "C13", "C14", "C15", "C16", "C19"]


def sh(cmd, **kw):
    return subprocess.run(cmd, stdout=subprocess.PIPE, stderr=subprocess.STDOUT, text=True, **kw)


def main():
    ap = argparse.ArgumentParser()
    ap.add_argument("--scratch", default="/tmp/mh")
    ap.add_argument("--n", type=int, default=100)
    ap.add_argument("--seed", type=int, default=1)
    ap.add_argument("--files", default="backend_inotify.go,shared.go,fsnotify.go")
    ap.add_argument("--jobs", type=int, default=9)
    ap.add_argument("--only", default="", help="file with mutant indices (one per line) to run instead of a random sample")
    ap.add_argument("--results", default="results.jsonl")
    ap.add_argument("--kq", action="store_true", help="kqueue backend: compile for freebsd, no Linux suite, checks C15 C17 C18")
    a = ap.parse_args()
    global CHECKS
    if a.kq:
        a.files = "backend_kqueue.go"
        CHECKS = ["C15", "C17", "C18"]
    S = a.scratch
    repo, harness, out = S + "/repo", S + "/harness", S + "/out"
    if not os.path.exists(repo):
        os.makedirs(S, exist_ok=True)
        sh(["git", "-C", "/repo", "worktree", "add", "--detach", repo, "HEAD"])
    shutil.rmtree(harness, ignore_errors=True)
    shutil.copytree("/verif/harness", harness)
    gm = open(harness + "/go.mod").read().replace("=> /repo", "=> " + repo)
    open(harness + "/go.mod", "w").write(gm)
    os.makedirs(out, exist_ok=True)
    sh(["go", "build", "-o", S + "/mutgen", "./mutgen"], cwd=harness, env=ENV)
    base = json.load(open("/root/.vp/BASELINE.json"))
    want = set(t for t in base["stable_pass"] if t.startswith("github.com/fsnotify/fsnotify::"))
    muts = []
    for f in a.files.split(","):
        r = sh([S + "/mutgen", "-list", repo + "/" + f])
        for line in r.stdout.splitlines():
            idx, pos, desc = line.split("\t")
            muts.append((f, int(idx), pos.split(":")[-1], desc))
    muts0 = list(muts)
    random.Random(a.seed).shuffle(muts)
    muts = muts[: a.n]
    if a.only:
        want_idx = set(int(x) for x in open(a.only).read().split())
        muts = [m for m in muts0 if m[1] in want_idx]
    resf = open(S + "/" + a.results, "a")
    env = dict(ENV, VERIF_REPO=repo, VERIF_HARNESS_DIR=harness, VERIF_OUT_DIR=out)
    for k, (f, idx, line, desc) in enumerate(muts):
        t0 = time.time()
        sh(["git", "-C", repo, "checkout", "--", "."])
        src = sh([S + "/mutgen", "-apply", str(idx), repo + "/" + f]).stdout
        open(repo + "/" + f, "w").write(src)
        rec = dict(file=f, idx=idx, line=int(line), desc=desc)
        diff = sh(["git", "-C", repo, "diff", "--", f]).stdout
        rec["diff"] = "\n".join(l for l in diff.splitlines() if l[:1] in "+-" and not l.startswith(("+++", "---")))[:600]
        b = sh(["go", "build", "./..."], cwd=repo, env=dict(ENV, GOOS="freebsd") if a.kq else ENV)
        if b.returncode != 0:
            rec["status"] = "uncompilable"
        else:
            def suite():
                r = subprocess.run(["go", "test", "-json", "-vet=off", "-count=1", "-timeout", "300s", "."], cwd=repo, env=ENV, stdout=subprocess.PIPE, stderr=subprocess.DEVNULL, text=True)
                res = {}
                for l in r.stdout.splitlines():
                    try:
                        e = json.loads(l)
                    except Exception:
                        continue
                    if e.get("Test") and e.get("Action") in ("pass", "fail", "skip"):
                        res[e["Package"] + "::" + e["Test"]] = e["Action"]
                return sorted(t for t in want if res.get(t) != "pass")
            bad = [] if a.kq else suite()
            if bad:
                bad2 = suite()  # load flakes: must fail twice
                bad = [t for t in bad if t in bad2]
            if bad:
                rec["status"] = "killed-by-suite"
                rec["suite_failures"] = [t.split("::")[1] for t in bad][:6]
            else:
                rec["status"] = "survives-suite"
                procs = {}
                kills, incon = [], []
                pending = list(CHECKS)
                running = {}
                while pending or running:
                    while pending and len(running) < a.jobs:
                        c = pending.pop(0)
                        lf = open("%s/%s.log" % (out, c), "w")
                        running[c] = subprocess.Popen(["timeout", "600", "/verif/check", c, "--tier", "quick"], cwd="/verif", env=env, stdout=lf, stderr=subprocess.STDOUT)
                    for c, p in list(running.items()):
                        if p.poll() is not None:
                            del running[c]
                            if p.returncode == 1:
                                kills.append(c)
                            elif p.returncode != 0:
                                incon.append(c)
                    time.sleep(0.2)
                rec["killed_by"] = sorted(kills)
                rec["inconclusive"] = sorted(incon)
        rec["secs"] = round(time.time() - t0, 1)
        resf.write(json.dumps(rec) + "\n")
        resf.flush()
        print(k, rec["file"], rec["line"], rec["desc"], rec["status"], rec.get("killed_by"), rec.get("inconclusive"), rec["secs"], flush=True)
    sh(["git", "-C", repo, "checkout", "--", "."])


if __name__ == "__main__":
    main()
